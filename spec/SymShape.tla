------------------------------ MODULE SymShape ------------------------------
(* C09: shape-based simplifications hold for every runtime binding of symbolic dims.             *)
(*                                                                                               *)
(* A behaviour                                                                                   *)
(*   1. derives a model (Gen* actions): inputs whose declared shapes mention literal dims, named *)
(*      symbols (N, M, K: the same name may be used twice) and unnamed dims; a body that mixes   *)
(*      shape computations (Shape/Size/Gather/Add/Sub/Mul/Abs/Neg/Cast to int64, int32 and back/ *)
(*      Concat/Squeeze/Reshape/Slice/Identity on integer vectors) with data ops (Relu/Add/       *)
(*      Reshape/Expand/Concat/Slice/Identity on float tensors);                                  *)
(*   2. runs ONE pass of onnxscript/optimizer/_constant_folding.py over it, transcribed step by   *)
(*      step: ResolveAndInfer = process_node's input replacement + _do_inference (the ONNX node   *)
(*      level shape inference of the ops in the menu, with _merge_shapes), then one action per    *)
(*      partial evaluator (EvalShape, EvalSize, EvalGather, EvalAdd, EvalAbs, EvalReshape,        *)
(*      EvalSqueeze, EvalCast, EvalIdentity (backward merge), EvalConcat, EvalExpand) and         *)
(*      EvalGeneric (reference-evaluator folding of all-constant nodes); replacement nodes        *)
(*      (Identity / Constant / shortened Concat) are visited in the same pass, as the code does;  *)
(*      the abstract state is the code's: symmap (OptimizerState._sym_value_map), sshape          *)
(*      (ir.Value.shape), cval (ir.Value.const_value);                                            *)
(*   3. Finish evaluates the original and the folded graph under EVERY binding of the free dims   *)
(*      to Vals (data tensors are represented by their shape: no op in the menu changes contents  *)
(*      other than by a shape-preserving map; int64 tensors carry their data) and records, per    *)
(*      binding, acceptance, outputs, and soundness of every abstract fact.                       *)
(*                                                                                               *)
(* Properties: DesignSound (C09 at design level: in every pass that takes no deviation step every  *)
(* abstract fact holds at every accepted binding and the folded model returns what the original  *)
(* returns), ShapesSound, and Sound (the same without the deviation escape: it must FAIL once      *)
(* Deviations # {}, SymShape_vacuity.cfg).  With Deviations = AllDevs the code's step (named        *)
(* Dev_* action) is enabled next to the design's step; passes that always took the code's step     *)
(* (faithful) are the implementation model: Emit prints their symbolic_value_map / shapes /         *)
(* decisions and, per binding, acceptance, outputs and whether the folded model departs.           *)
EXTENDS Tensor, TLC, Json

CONSTANTS Deviations,      \* subset of AllDevs
          InputMenu,       \* set of input declarations: sequences of shapes; dims: literal | 1001.. named | 2001.. unnamed
          MaxNodes,
          Vals,            \* values every free dim is bound to
          Rich,            \* 0: Shape/Add/Abs only (vacuity cfg)  1: reduced menus (exhaustive runs)  2: full menus (simulation)
                           \* 3: attribute sweep (SymShape_attrs.cfg)
          Chain            \* TRUE: node k+1 must consume the output of node k (exhaustive runs then reach depth 3)

VARIABLES ins, nodes, meta, stage, pc, phase, cur, sshape, cval, symmap, dec, rep,
          faithful         \* FALSE once the pass took the design's step where the code takes a deviation
vars == <<ins, nodes, meta, stage, pc, phase, cur, sshape, cval, symmap, dec, rep, faithful>>

AllDevs == {"abs_assumes_nonneg"}
NoDevs == {}
BIG == 1000000            \* stands for INT64_MAX in Slice ends

-----------------------------------------------------------------------------
(* symbolic dims: a sequence of terms; <<n>> literal (n < 1000), <<1000>> unknown (SymbolicDim(None)), *)
(* <<1001>> named symbol, <<1001, -5>> the composite name "N+-5" built by the Add evaluator           *)
UNK == 1000
Lit(n) == <<n>>
UNKD == <<UNK>>
IsLit(d) == Len(d) = 1 /\ d[1] < UNK
IsUnk(d) == d = UNKD
IsNamed(d) == ~IsLit(d) /\ ~IsUnk(d)
NOSH == << <<-9999>> >>          \* value.shape is None
SFAIL == << <<-9998>> >>         \* shape inference raised
NOTYPE == << <<-9996>> >>        \* value.shape is None and value.type is None (inference raised on its producer)
LitShape(s) == [i \in 1..Len(s) |-> Lit(s[i])]
AllLit(sh) == \A i \in 1..Len(sh) : IsLit(sh[i])
Lits(sh) == [i \in 1..Len(sh) |-> sh[i][1]]
UnkShape(r) == [i \in 1..r |-> UNKD]

NOC == [dt |-> "none", shape |-> <<>>, data |-> <<>>]
UNSPEC == [dt |-> "UNSPEC", shape |-> <<>>, data |-> <<>>]   \* ONNX leaves it open / ORT is lenient
Bad(t) == t.dt \in {"ERR", "UNSPEC"}
FT(shape) == T("f", shape, <<>>)                               \* a float tensor, contents abstracted

(* operands and nodes *)
R(i) == [t |-> "r", i |-> i, v |-> <<>>]
C(v) == [t |-> "c", i |-> 0, v |-> v]
Node(op, a, p) == [op |-> op, a |-> a, p |-> p, c |-> NOC]
ConstNode(c) == [op |-> "Constant", a |-> <<>>, p |-> <<>>, c |-> c]
NI == Len(ins)
V(k) == NI + k
NV == NI + Len(nodes)

RECURSIVE SortSet(_)
SortSet(S) == IF S = {} THEN <<>> ELSE LET m == CHOOSE x \in S : \A y \in S : x <= y IN <<m>> \o SortSet(S \ {m})
RECURSIVE Pow(_, _)
Pow(b, e) == IF e = 0 THEN 1 ELSE b * Pow(b, e - 1)

\* Python's seq[start:end] (end = NONE: absent) = ONNX Shape's start/end clamping
PySlice(s, start, end) ==
  LET n == Len(s)
      a == Clamp(IF start < 0 THEN start + n ELSE start, 0, n)
      b == IF end = NONE THEN n ELSE Clamp(IF end < 0 THEN end + n ELSE end, 0, n)
  IN SubSeq(s, a + 1, b)

-----------------------------------------------------------------------------
(* concrete semantics (ONNX operator text; ORT 1.30 observed where the text is silent) *)
OV(o, vals) == IF o.t = "c" THEN Vec("i", o.v) ELSE vals[o.i]

ReshapeX(t, tgt, az) ==
  IF az /\ (\E i \in 1..Len(tgt) : tgt[i] = -1) /\ (\E i \in 1..Len(tgt) : tgt[i] = 0) THEN UNSPEC
  ELSE Reshape(t, tgt, az)
ExpandF(t, tgt) ==
  IF \E i \in 1..Len(tgt) : tgt[i] < 0 THEN ERR
  ELSE LET bs == BroadcastShape(t.shape, tgt) IN IF bs = NOSHAPE THEN ERR ELSE FT(bs)
BinF(a, b) == LET bs == BroadcastShape(a.shape, b.shape) IN IF bs = NOSHAPE THEN ERR ELSE FT(bs)
ConcatF(ts, axis) ==
  LET r == Rank(ts[1]) a == NormAxis(axis, r) IN
  IF r = 0 \/ a = -1000 \/ \E i \in 1..Len(ts) : Rank(ts[i]) # r THEN ERR
  ELSE LET mism == \E i \in 1..Len(ts) : \E j \in 1..r : j # a + 1 /\ ts[i].shape[j] # ts[1].shape[j]
           empty == \E i \in 1..Len(ts) : Numel(ts[i].shape) = 0
       IN IF mism THEN (IF empty THEN UNSPEC ELSE ERR)     \* ORT skips the check for empty operands
          ELSE FT([j \in 1..r |-> IF j = a + 1 THEN SeqSum([i \in 1..Len(ts) |-> ts[i].shape[j]]) ELSE ts[1].shape[j]])
SliceF(t, ax, s, e, k) ==
  LET r == Rank(t) a == NormAxis(ax, r) IN
  IF a = -1000 THEN ERR
  ELSE FT([i \in 1..r |-> IF i = a + 1 THEN SlicePlanAxis(t.shape[i], s, e, k)[3] ELSE t.shape[i]])

EvalNode(n, vals) ==
  LET A(j) == OV(n.a[j], vals)
      na == Len(n.a)
  IN IF \E j \in 1..na : A(j).dt = "UNSPEC" THEN UNSPEC
     ELSE IF \E j \in 1..na : IsErr(A(j)) THEN ERR
     ELSE CASE n.op = "Shape" -> Vec("i", PySlice(A(1).shape, n.p[1], n.p[2]))
            [] n.op = "Size" -> Scalar("i", Numel(A(1).shape))
            [] n.op = "Gather" -> Gather(A(1), IF n.p[1] = 1 THEN Scalar("i", n.a[2].v[1]) ELSE A(2), 0)
            [] n.op = "Add" -> IF A(1).dt = "i" THEN Map2(A(1), A(2), "i", LAMBDA x, y : x + y) ELSE BinF(A(1), A(2))
            [] n.op = "Sub" -> IF A(1).dt = "i" THEN Map2(A(1), A(2), "i", LAMBDA x, y : x - y) ELSE BinF(A(1), A(2))
            [] n.op = "Mul" -> IF A(1).dt = "i" THEN Map2(A(1), A(2), "i", LAMBDA x, y : x * y) ELSE BinF(A(1), A(2))
            [] n.op = "Abs" -> IF A(1).dt = "i" THEN Map1(A(1), "i", AbsI) ELSE A(1)
            [] n.op = "Neg" -> IF A(1).dt = "i" THEN Map1(A(1), "i", LAMBDA x : -x) ELSE A(1)
            [] n.op \in {"Relu", "Identity"} -> A(1)
            [] n.op = "Cast" -> [A(1) EXCEPT !.dt = IF n.p[1] = 6 THEN "j" ELSE "i"]        \* "j": int32 (values are small)
            [] n.op = "Concat" -> IF A(1).dt = "i" THEN Concat([j \in 1..na |-> A(j)], n.p[1])
                                  ELSE ConcatF([j \in 1..na |-> A(j)], n.p[1])
            [] n.op = "Squeeze" -> SqueezeAll(A(1))
            [] n.op = "Reshape" -> IF Rank(A(2)) # 1 THEN ERR ELSE ReshapeX(A(1), A(2).data, n.p[1] = 1)
            [] n.op = "Expand" -> IF Rank(A(2)) # 1 THEN ERR ELSE ExpandF(A(1), A(2).data)
            [] n.op = "Slice" -> IF A(1).dt = "i" THEN Slice(A(1), <<n.p[2]>>, <<n.p[3]>>, <<n.p[1]>>, <<n.p[4]>>)
                                 ELSE SliceF(A(1), n.p[1], n.p[2], n.p[3], n.p[4])
            [] n.op = "Constant" -> n.c

-----------------------------------------------------------------------------
(* bindings of the free dims *)
FreeOf(I) == UNION {{I[i][j] : j \in 1..Len(I[i])} : i \in 1..Len(I)} \cap (1001..2999)
FreeSeq == SortSet(FreeOf(ins))
ValSeq == SortSet(Vals)
NBOf(fs) == Pow(Cardinality(Vals), Len(fs))
\* binding number j (1-based, lexicographic, first free dim most significant) as a sequence aligned with fs
BindOf(j, fs) == [i \in 1..Len(fs) |-> ValSeq[(((j - 1) \div Pow(Cardinality(Vals), Len(fs) - i)) % Cardinality(Vals)) + 1]]
BindFn(j, fs) == LET bs == BindOf(j, fs) IN [c \in SeqToSet(fs) |-> bs[CHOOSE i \in 1..Len(fs) : fs[i] = c]]
DimVal(c, b) == IF c < UNK THEN c ELSE b[c]
Conc(d, b) == SeqSum([i \in 1..Len(d) |-> DimVal(d[i], b)])     \* value of a (composite) symbolic dim

InputVals(b) == [i \in 1..NI |-> FT([j \in 1..Len(ins[i]) |-> DimVal(ins[i][j], b)])]
FoldVal(k, vals) == CASE dec[k].k \in {"const", "fold"} -> dec[k].n.c
                      [] dec[k].k = "ident" -> OV(dec[k].n.a[1], vals)
                      [] OTHER -> EvalNode(dec[k].n, vals)
RECURSIVE EvalOrig(_, _)
EvalOrig(k, b) == IF k = 0 THEN InputVals(b)
                  ELSE LET prev == EvalOrig(k - 1, b) IN Append(prev, EvalNode(nodes[k], prev))
RECURSIVE EvalFolded(_, _)
EvalFolded(k, b) == IF k = 0 THEN InputVals(b)
                    ELSE LET prev == EvalFolded(k - 1, b) IN Append(prev, FoldVal(k, prev))

UsedIn(ns) == UNION {{ns[k].a[j].i : j \in 1..Len(ns[k].a)} : k \in 1..Len(ns)}
OutSeq(ns) == SortSet({NI + k : k \in 1..Len(ns)} \ UsedIn(ns))     \* graph outputs: every leaf value

-----------------------------------------------------------------------------
(* static side: the folder's view *)
NOSYM == [k |-> "none", d |-> <<>>, o |-> R(0)]
SymShapeV(d) == [k |-> "shape", d |-> d, o |-> R(0)]
SymVal(o) == [k |-> "val", d |-> <<>>, o |-> o]

\* process_node: replace_input_with.  A value that was folded afterwards is a new object (initializer /
\* Constant output) that carries no symbolic value: the entry stays in the map under the dead object.
Res(o) == IF o.t = "r" /\ cval[o.i] = NOC /\ symmap[o.i].k = "val" THEN symmap[o.i].o ELSE o
ConstOf(o) == IF o.t = "c" THEN Vec("i", o.v) ELSE cval[o.i]
SShapeOf(o) == IF o.t = "c" THEN <<Lit(Len(o.v))>> ELSE IF sshape[o.i] = NOTYPE THEN NOSH ELSE sshape[o.i]
Untyped(o) == o.t = "r" /\ sshape[o.i] = NOTYPE
NOSV == << <<-9997>> >>
\* OptimizerState.get_shape_value: a small int64 constant (1-D only) or a Shape in the map
ShapeValue(o) == LET c == ConstOf(o) IN
                 IF c # NOC /\ c.dt = "i" THEN (IF Rank(c) = 1 THEN LitShape(c.data) ELSE NOSV)
                 ELSE IF o.t = "r" /\ symmap[o.i].k = "shape" THEN symmap[o.i].d ELSE NOSV
\* _same_shape: unknown dims in the first shape are never equal to anything
SameShape(s1, s2) == (\A i \in 1..Len(s1) : ~IsUnk(s1[i])) /\ s1 = s2
MergeDim(d1, d2) == IF d1 = d2 THEN d1 ELSE IF IsLit(d1) THEN d1 ELSE IF IsLit(d2) THEN d2 ELSE IF IsUnk(d1) THEN d2 ELSE d1
\* _merge_shapes(preferred, other); a rank mismatch raises (callers catch and keep what they had)
MergeShapes(p, o) == IF p = NOSH THEN o ELSE IF o = NOSH THEN p
                     ELSE IF Len(p) # Len(o) THEN SFAIL ELSE [i \in 1..Len(p) |-> MergeDim(p[i], o[i])]

(* ONNX node-level shape inference (onnx 1.22) for the ops of the menu *)
BcastDim(d1, d2) ==     \* bidirectionalBroadcastShapeInference, one position
  LET l1 == IsLit(d1) /\ d1[1] # 1
      l2 == IsLit(d2) /\ d2[1] # 1
      s1 == ~IsLit(d1)
      s2 == ~IsLit(d2)
  IN IF l1 /\ l2 /\ d1 # d2 THEN <<-9998>>
     ELSE IF l1 THEN d1 ELSE IF l2 THEN d2
     ELSE IF ~s1 /\ ~s2 THEN Lit(1)
     ELSE IF s1 /\ s2 THEN (IF d1 = d2 THEN d1 ELSE UNKD)
     ELSE IF s1 THEN d1 ELSE d2
BcastS(a, b) ==
  LET r == Max2(Len(a), Len(b))
      P(s, i) == LET off == r - Len(s) IN IF i <= off THEN Lit(1) ELSE s[i - off]
      res == [i \in 1..r |-> BcastDim(P(a, i), P(b, i))]
  IN IF \E i \in 1..r : res[i] = <<-9998>> THEN SFAIL ELSE res
ConcatS(shs, axis) ==
  IF \E i \in 1..Len(shs) : shs[i] = NOSH THEN NOSH
  ELSE LET r == Len(shs[1]) a == NormAxis(axis, r) IN
       IF r = 0 \/ a = -1000 \/ \E i \in 1..Len(shs) : Len(shs[i]) # r THEN SFAIL
       ELSE LET Col(j) == [i \in 1..Len(shs) |-> shs[i][j]]
                LitsOf(c) == {c[i] : i \in {i \in 1..Len(c) : IsLit(c[i])}}
                Named(c) == SelectSeq(c, IsNamed)
                Dim(j) == LET c == Col(j) IN
                          IF j = a + 1 THEN (IF AllLit(c) THEN Lit(SeqSum(Lits(c))) ELSE UNKD)
                          ELSE IF Cardinality(LitsOf(c)) > 1 THEN <<-9998>>
                          ELSE IF LitsOf(c) # {} THEN CHOOSE x \in LitsOf(c) : TRUE
                          ELSE IF Named(c) # <<>> THEN Named(c)[1] ELSE UNKD
                res == [j \in 1..r |-> Dim(j)]
            IN IF \E j \in 1..r : res[j] = <<-9998>> THEN SFAIL ELSE res
ReshapeS(inS, k2, s2, az) ==
  IF k2 = NOC THEN (IF s2 # NOSH /\ Len(s2) = 1 /\ IsLit(s2[1]) THEN UnkShape(s2[1][1]) ELSE NOSH)
  ELSE LET tgt == k2.data
           n == Len(tgt)
           negs == {i \in 1..n : tgt[i] = -1}
           Unres(i) == tgt[i] = 0 /\ ~az /\ (inS = NOSH \/ (i <= Len(inS) /\ ~IsLit(inS[i])))
           D0(i) == IF tgt[i] > 0 THEN Lit(tgt[i])
                    ELSE IF tgt[i] = 0 /\ az THEN Lit(0)
                    ELSE IF tgt[i] = 0 THEN (IF inS = NOSH THEN UNKD ELSE IF i > Len(inS) THEN <<-9998>> ELSE inS[i])
                    ELSE IF tgt[i] = -1 THEN UNKD ELSE <<-9998>>
           outProd == SeqProd([i \in 1..n |-> IF IsLit(D0(i)) /\ tgt[i] # -1 THEN D0(i)[1] ELSE 1])
           inValid == inS # NOSH /\ \A i \in 1..Len(inS) : IsLit(inS[i]) \/ (i <= n /\ Unres(i))
           inProd == SeqProd([i \in 1..Len(inS) |-> IF IsLit(inS[i]) THEN inS[i][1] ELSE 1])
       IN IF Cardinality(negs) > 1 \/ \E i \in 1..n : D0(i) = <<-9998>> THEN SFAIL
          ELSE IF negs # {} /\ outProd = 0 THEN SFAIL
          ELSE IF negs # {} /\ inValid /\ (inProd % outProd) # 0 THEN SFAIL
          ELSE [i \in 1..n |-> IF i \in negs THEN (IF inValid THEN Lit(inProd \div outProd) ELSE UNKD) ELSE D0(i)]
ExpandS(inS, k2, s2) ==
  IF inS = NOSH \/ s2 = NOSH THEN NOSH
  ELSE IF k2 # NOC THEN BcastS(inS, LitShape(k2.data))
  ELSE IF Len(s2) = 1 /\ IsLit(s2[1]) THEN BcastS(inS, UnkShape(s2[1][1])) ELSE NOSH
SliceS(inS, ax, s, e, k) ==
  IF inS = NOSH THEN NOSH
  ELSE LET a == NormAxis(ax, Len(inS)) IN
       IF a = -1000 THEN SFAIL
       ELSE [i \in 1..Len(inS) |-> IF i = a + 1 THEN (IF IsLit(inS[i]) THEN Lit(SlicePlanAxis(inS[i][1], s, e, k)[3]) ELSE UNKD)
                                    ELSE inS[i]]
\* _do_inference: skipped when an input has no type; an exception leaves the output as it was
SInfer(n) ==
  LET Sh(j) == SShapeOf(n.a[j])
      Kc(j) == ConstOf(n.a[j])
  IN IF \E j \in 1..Len(n.a) : Untyped(n.a[j]) THEN SFAIL ELSE
     CASE n.op = "Shape" -> IF Sh(1) = NOSH THEN <<UNKD>> ELSE <<Lit(Len(PySlice(Sh(1), n.p[1], n.p[2])))>>
       [] n.op = "Size" -> <<>>
       [] n.op = "Gather" -> IF Sh(1) = NOSH \/ Sh(1) = <<>> THEN NOSH
                             ELSE (IF n.p[1] = 1 THEN <<>> ELSE Sh(2)) \o Tail(Sh(1))
       [] n.op \in {"Add", "Sub", "Mul"} -> IF Sh(1) = NOSH \/ Sh(2) = NOSH THEN NOSH ELSE BcastS(Sh(1), Sh(2))
       [] n.op \in {"Abs", "Neg", "Relu", "Identity", "Cast"} -> Sh(1)
       [] n.op = "Concat" -> ConcatS([j \in 1..Len(n.a) |-> Sh(j)], n.p[1])
       [] n.op = "Squeeze" -> IF Sh(1) = NOSH \/ ~AllLit(Sh(1)) THEN NOSH ELSE SelectSeq(Sh(1), LAMBDA d : d # Lit(1))
       [] n.op = "Reshape" -> ReshapeS(Sh(1), Kc(2), Sh(2), n.p[1] = 1)
       [] n.op = "Expand" -> ExpandS(Sh(1), Kc(2), Sh(2))
       [] n.op = "Slice" -> SliceS(Sh(1), n.p[1], n.p[2], n.p[3], n.p[4])

-----------------------------------------------------------------------------
(* model derivation *)
DataVals == {i \in 1..Len(meta) : meta[i].k = "f"}
IntVals == {i \in 1..Len(meta) : meta[i].k = "i"}
VecVals == {i \in IntVals : meta[i].rank = 1}
MetaI(rank, len) == [k |-> "i", rank |-> rank, len |-> len]
MetaF(rank) == [k |-> "f", rank |-> rank, len |-> -1]

\* Rich = 3 (attribute sweep): every legal attribute value, also where ONNX clamps - Shape start/end over
\* [-(rank+2), rank+2] (Shape-15: out-of-range values are clamped to [0, rank]), every Gather index in
\* [-len, len-1], Slice starts/ends below -dim, above dim and at INT64_MIN/MAX, negative steps
OrdinaryShape == {<<0, NONE>>, <<0, 1>>, <<1, NONE>>}
ShapeRanges == IF Rich = 0 THEN {<<0, 1>>} ELSE IF Rich = 1 THEN OrdinaryShape
               ELSE {<<0, NONE>>, <<0, 1>>, <<1, NONE>>, <<-1, NONE>>, <<1, 2>>, <<0, -1>>, <<-5, NONE>>, <<-4, 1>>, <<0, 5>>, <<-2, 7>>}
ShapeRangesFor(r) == IF Rich = 3 THEN {<<a, b>> : a \in (-(r + 2))..(r + 2), b \in ((-(r + 2))..(r + 2)) \cup {NONE}} ELSE ShapeRanges
GatherIdx == IF Rich = 1 THEN {<<0>>, <<1>>, <<1, 0>>}
             ELSE IF Rich = 3 THEN {<<i>> : i \in (-4)..3} \cup {<<-1, 0>>, <<-2, 1>>, <<0, -1, -3>>}
             ELSE {<<0>>, <<1>>, <<-1>>, <<2>>, <<1, 0>>, <<0, 0>>, <<-1, 0>>, <<-2>>, <<-3, -1>>}
ArithConsts == IF Rich = 0 THEN {<<-2>>} ELSE IF Rich = 1 THEN {<<-2>>, <<1>>} ELSE {<<-2>>, <<-1>>, <<1>>, <<0>>, <<2>>}
ConcatConsts == IF Rich = 1 THEN {<<-1>>, <<1>>} ELSE {<<-1>>, <<1>>, <<0>>, <<2>>, <<1, -1>>}
ReshapeConsts == IF Rich = 1 THEN {<<-1>>, <<0, -1>>} ELSE {<<-1>>, <<0, -1>>, <<-1, 0>>, <<0, 0>>, <<-1, 2>>, <<1, -1>>, <<2, -1, 1>>}
ExpandConsts == IF Rich = 1 THEN {<<1>>, <<2, 1>>} ELSE {<<1>>, <<3>>, <<1, 1>>, <<2, 1>>, <<1, 3>>, <<2, 1, 1>>}
SliceRanges == IF Rich = 1 THEN {<<0, BIG, 1>>, <<1, BIG, 1>>}
               ELSE IF Rich = 3 THEN {<<a, b, 1>> : a \in {-BIG, -4, -3, -2, -1, 0, 1, 2, 3}, b \in {-BIG, -4, -3, -2, -1, 0, 1, 2, 3, 4, BIG}}
                                     \* (not generated: a negative step with end = INT64_MAX - ORT reads that end as "unbounded"
                                     \*  and returns the reversed axis, the ONNX text clamps it and returns nothing)
                                     \cup {<<a, b, k>> : a \in {-1, 0, 2, BIG}, b \in {-BIG, -4, -1, 0}, k \in {-1, -2}}
                                     \cup {<<a, b, 2>> : a \in {-1, 0, 2}, b \in {-4, -1, 0, BIG}}
               ELSE {<<-3, BIG, 1>>, <<0, -4, 1>>, <<-1, -BIG, -1>>, <<BIG, -BIG, -1>>, <<0, BIG, 1>>, <<1, BIG, 1>>, <<0, 1, 1>>, <<0, -1, 1>>, <<-1, BIG, 1>>, <<0, 2, 1>>, <<0, BIG, 2>>}
IntOperands == {R(i) : i \in IntVals}
LenOf(o) == IF o.t = "c" THEN Len(o.v) ELSE meta[o.i].len
RankOf(o) == IF o.t = "c" THEN 1 ELSE meta[o.i].rank
SliceLen(n, r) == SlicePlanAxis(n, r[1], r[2], r[3])[3]
\* data ops whose other operands are constants take the newest data value or the first input only
\* (keeps the simulated models on shape chains instead of piles of unrelated data ops)
FocusData == IF Rich = 1 THEN DataVals ELSE {1, CHOOSE x \in DataVals : \A y \in DataVals : y <= x}

\* simulation (Rich = 2) stays on shape chains: the first node is a Shape, at most two nodes are pure data ops
PureData(n, m) == m.k = "f" /\ \A j \in 1..Len(n.a) : n.a[j].t = "c" \/ meta[n.a[j].i].k = "f"
NPure == Cardinality({k \in 1..Len(nodes) : PureData(nodes[k], meta[V(k)])})
Push(n, m) == /\ (Chain /\ nodes # <<>>) => \E j \in 1..Len(n.a) : n.a[j] = R(V(Len(nodes)))
              /\ Rich = 2 => /\ (nodes = <<>> => n.op = "Shape")
                             /\ (PureData(n, m) => NPure < 2)
              \* attribute sweep: one swept Shape / data Slice, or an ordinary Shape followed by a swept Gather / Slice
              /\ Rich = 3 => /\ (nodes = <<>> => n.op \in {"Shape", "Slice"})
                             /\ (nodes # <<>> => nodes[1].op = "Shape" /\ nodes[1].p \in OrdinaryShape /\ n.op \in {"Gather", "Slice"})
              /\ nodes' = Append(nodes, n)
              /\ meta' = Append(meta, m)
              /\ UNCHANGED <<ins, stage, pc, phase, cur, sshape, cval, symmap, dec, rep, faithful>>
Building == stage = "build" /\ Len(nodes) < MaxNodes

GenShape == Building /\ \E x \in DataVals : \E r \in ShapeRangesFor(meta[x].rank) :
              LET l == Len(PySlice([i \in 1..meta[x].rank |-> 0], r[1], r[2])) IN
              (l >= 1 \/ Rich = 3) /\ Push(Node("Shape", <<R(x)>>, r), MetaI(1, l))
GenSize == Building /\ Rich = 2 /\ \E x \in DataVals : Push(Node("Size", <<R(x)>>, <<>>), MetaI(0, 1))
GenGather == Building /\ \E s \in VecVals, ix \in GatherIdx, sc \in {0, 1}, ax \in {0, 1} :
              /\ \A j \in 1..Len(ix) : ix[j] >= -meta[s].len /\ ix[j] < meta[s].len
              /\ sc = 1 => (Len(ix) = 1 /\ Rich = 2)
              /\ ax = 0 => Rich = 2               \* Gather without an explicit axis attribute
              /\ Push(Node("Gather", <<R(s), C(ix)>>, <<sc, ax>>), IF sc = 1 THEN MetaI(0, 1) ELSE MetaI(1, Len(ix)))
GenArithI == Building /\ \E op \in (IF Rich <= 1 THEN {"Add"} ELSE {"Add", "Sub", "Mul"}), s \in IntVals,
                            o \in IntOperands \cup {C(c) : c \in ArithConsts} :
              /\ (o.t = "r" => o.i >= s)          \* commutative pairs once (Sub: both orders only with consts)
              /\ (LenOf(o) = meta[s].len \/ LenOf(o) = 1 \/ meta[s].len = 1)
              /\ Push(Node(op, <<R(s), o>>, <<>>), MetaI(Max2(meta[s].rank, RankOf(o)), Max2(meta[s].len, LenOf(o))))
GenUnaryI == Building /\ \E op \in (IF Rich = 0 THEN {"Abs"} ELSE IF Rich = 1 THEN {"Abs", "Cast"} ELSE {"Abs", "Cast", "Neg", "Identity"}), s \in IntVals :
              Push(Node(op, <<R(s)>>, IF op = "Cast" THEN <<7>> ELSE <<>>), meta[s])
GenCast32 == Building /\ \E s \in IntVals : Push(Node("Cast", <<R(s)>>, <<6>>), [meta[s] EXCEPT !.k = "j"])
GenCastBack == Building /\ \E s \in {i \in 1..Len(meta) : meta[i].k = "j"} : Push(Node("Cast", <<R(s)>>, <<7>>), [meta[s] EXCEPT !.k = "i"])
GenConcatI == Building /\ \E a \in {R(i) : i \in VecVals}, b \in {R(i) : i \in VecVals} \cup {C(c) : c \in ConcatConsts}, sw \in {0, 1} :
              /\ LenOf(a) + LenOf(b) <= 4
              /\ (sw = 1 => b.t = "c")            \* constant piece first
              /\ Push(Node("Concat", IF sw = 1 THEN <<b, a>> ELSE <<a, b>>, <<0>>), MetaI(1, LenOf(a) + LenOf(b)))
GenConcat3 == Building /\ Rich = 2 /\ \E a \in {R(i) : i \in VecVals}, b \in {R(i) : i \in VecVals}, c \in ConcatConsts :
              /\ LenOf(a) + LenOf(b) + Len(c) <= 4
              /\ Push(Node("Concat", <<a, C(c), b>>, <<0>>), MetaI(1, LenOf(a) + LenOf(b) + Len(c)))
GenSqueezeI == Building /\ \E s \in VecVals : meta[s].len = 1 /\ Push(Node("Squeeze", <<R(s)>>, <<>>), MetaI(0, 1))
GenReshapeI == Building /\ \E s \in IntVals, t \in {<<-1>>, <<1>>} :
              /\ (t = <<1>> => meta[s].len = 1 /\ Rich = 2)
              /\ Push(Node("Reshape", <<R(s), C(t)>>, <<0>>), MetaI(1, meta[s].len))
GenSliceI == Building /\ \E s \in VecVals, r \in SliceRanges :
              /\ SliceLen(meta[s].len, r) >= 1
              /\ Push(Node("Slice", <<R(s)>>, <<0>> \o r), MetaI(1, SliceLen(meta[s].len, r)))
GenUnaryD == Building /\ \E op \in (IF Rich = 1 THEN {"Relu"} ELSE {"Relu", "Identity"}), x \in FocusData :
              Push(Node(op, <<R(x)>>, <<>>), meta[x])
GenAddD == Building /\ \E x \in DataVals, y \in DataVals :
              x <= y /\ Push(Node("Add", <<R(x), R(y)>>, <<>>), MetaF(Max2(meta[x].rank, meta[y].rank)))
GenReshapeD == Building /\ \E x \in DataVals, o \in {R(i) : i \in VecVals} \cup {C(c) : c \in ReshapeConsts}, az \in {0, 1} :
              /\ LenOf(o) <= 3
              /\ (o.t = "c" => x \in FocusData)
              /\ (az = 1 => Rich = 2 /\ (o.t = "c" => \A i \in 1..Len(o.v) : o.v[i] # -1))
              /\ Push(Node("Reshape", <<R(x), o>>, <<az>>), MetaF(LenOf(o)))
GenExpandD == Building /\ \E x \in DataVals, o \in {R(i) : i \in VecVals} \cup {C(c) : c \in ExpandConsts} :
              /\ LenOf(o) <= 3
              /\ (o.t = "c" => x \in FocusData)
              /\ Push(Node("Expand", <<R(x), o>>, <<>>), MetaF(Max2(meta[x].rank, LenOf(o))))
GenConcatD == Building /\ \E x \in DataVals, y \in DataVals, ax \in {0, 1, -1} :
              /\ meta[x].rank = meta[y].rank /\ meta[x].rank >= 1 /\ ax < meta[x].rank
              /\ (ax = -1 => Rich = 2)
              /\ Push(Node("Concat", <<R(x), R(y)>>, <<ax>>), meta[x])
GenSliceD == Building /\ \E x \in FocusData, ax \in (IF Rich = 3 THEN {0, 1, -1} ELSE {0, 1}), r \in SliceRanges :
              /\ ax < meta[x].rank
              /\ Push(Node("Slice", <<R(x)>>, <<ax>> \o r), meta[x])

Gen == \/ GenShape \/ GenArithI \/ GenUnaryI
       \/ (Rich >= 1 /\ (\/ GenSize \/ GenGather \/ GenCast32 \/ GenCastBack \/ GenConcatI \/ GenConcat3 \/ GenSqueezeI \/ GenReshapeI
                         \/ GenSliceI \/ GenUnaryD \/ GenAddD \/ GenReshapeD \/ GenExpandD \/ GenConcatD \/ GenSliceD))

-----------------------------------------------------------------------------
(* one pass of FoldConstantsPass.visit_graph *)
vcur == V(pc)
Folding == stage = "fold" /\ pc <= Len(nodes)
KEEP(n) == [k |-> "keep", n |-> n, dev |-> {}]
DeclDim(c) == IF c > 2000 THEN UNKD ELSE <<c>>

StartFold ==
  /\ stage = "build" /\ Len(nodes) >= 1
  /\ stage' = "fold" /\ pc' = 1 /\ phase' = "enter" /\ cur' = nodes[1]
  /\ sshape' = [i \in 1..NV |-> IF i <= NI THEN [j \in 1..Len(ins[i]) |-> DeclDim(ins[i][j])]
                                 ELSE IF i \in SeqToSet(OutSeq(nodes)) THEN UnkShape(meta[i].rank)   \* declared graph outputs: rank only
                                 ELSE NOSH]
  /\ cval' = [i \in 1..NV |-> NOC]
  /\ symmap' = [i \in 1..NV |-> NOSYM]
  /\ dec' = [k \in 1..Len(nodes) |-> KEEP(nodes[k])]
  /\ UNCHANGED <<ins, nodes, meta, rep, faithful>>

\* process_node, first half: inputs whose symbolic value is another value are replaced by it;
\* Constant nodes publish const_value/shape; every other node gets node-level shape inference,
\* merged into what the output value already carries (_merge_shapes, exceptions swallowed).
ResolveAndInfer ==
  /\ Folding /\ phase = "enter"
  /\ LET rn == [cur EXCEPT !.a = [j \in 1..Len(cur.a) |-> Res(cur.a[j])]]
         inf == SInfer(rn)
     IN /\ cur' = rn
        /\ IF rn.op = "Constant"
           THEN /\ cval' = [cval EXCEPT ![vcur] = rn.c]
                /\ sshape' = [sshape EXCEPT ![vcur] = LitShape(rn.c.shape)]
           ELSE /\ cval' = cval
                /\ sshape' = [sshape EXCEPT ![vcur] = IF inf = SFAIL THEN (IF @ = NOSH THEN NOTYPE ELSE @)
                                                    ELSE LET m == MergeShapes(IF @ = NOTYPE THEN NOSH ELSE @, inf)
                                                         IN IF m = SFAIL THEN @ ELSE m]
  /\ phase' = "eval"
  /\ UNCHANGED <<ins, nodes, meta, stage, pc, symmap, dec, rep, faithful>>

Advance(d) == /\ dec' = [dec EXCEPT ![pc] = [d EXCEPT !.dev = @ \cup dec[pc].dev]]
              /\ pc' = pc + 1 /\ phase' = "enter"
              /\ cur' = IF pc + 1 <= Len(nodes) THEN nodes[pc + 1] ELSE cur
Kind(n) == IF n.op = "Constant" THEN "const"
           ELSE IF n.op = "Identity" /\ nodes[pc].op # "Identity" THEN "ident"
           ELSE IF Len(n.a) # Len(nodes[pc].a) THEN "concat" ELSE "keep"
\* the reference evaluator folds a node all of whose inputs are constants (none is a graph input)
Foldable(n) == /\ n.op # "Constant" /\ \A j \in 1..Len(n.a) : ConstOf(n.a[j]) # NOC
               /\ ~Bad(EvalNode(n, cval))
\* after a partial evaluator returned None: record sym, then generic folding or keep
NoReplaceF(sym, fa) ==
  /\ faithful' = fa
  /\ symmap' = IF sym = NOSYM THEN symmap ELSE [symmap EXCEPT ![vcur] = sym]
  /\ IF Foldable(cur)
     THEN LET c == EvalNode(cur, cval) IN
          /\ cval' = [cval EXCEPT ![vcur] = c]
          /\ sshape' = [sshape EXCEPT ![vcur] = IF @ \in {NOSH, NOTYPE} THEN LitShape(c.shape) ELSE @]   \* replace_nodes_and_values keeps the old value's shape
          /\ Advance([k |-> "fold", n |-> ConstNode(c), dev |-> {}])
     ELSE /\ UNCHANGED <<cval, sshape>>
          /\ Advance([k |-> Kind(cur), n |-> cur, dev |-> {}])
  /\ UNCHANGED <<ins, nodes, meta, stage, rep>>
\* a partial evaluator returned a replacement: the new node is visited next (same pass)
NoReplace(sym) == NoReplaceF(sym, faithful)
ReplaceF(n, sym, devs, fa) ==
  /\ faithful' = fa
  /\ symmap' = IF sym = NOSYM THEN symmap ELSE [symmap EXCEPT ![vcur] = sym]
  /\ cur' = n /\ phase' = "enter" /\ pc' = pc
  /\ dec' = [dec EXCEPT ![pc].dev = @ \cup devs]
  /\ UNCHANGED <<ins, nodes, meta, stage, sshape, cval, rep>>
Replace(n, sym, devs) == ReplaceF(n, sym, devs, faithful)
Evaluating(op) == Folding /\ phase = "eval" /\ cur.op = op
IdentityOf(o) == Node("Identity", <<o>>, <<>>)

EvalShape ==
  /\ Evaluating("Shape")
  /\ LET in == SShapeOf(cur.a[1]) IN
     IF in = NOSH THEN NoReplace(NOSYM)
     ELSE LET sl == PySlice(in, cur.p[1], cur.p[2]) IN
          IF AllLit(sl) THEN Replace(ConstNode(Vec("i", Lits(sl))), SymShapeV(sl), {})
          ELSE NoReplace(SymShapeV(sl))
EvalSize ==
  /\ Evaluating("Size")
  /\ LET in == SShapeOf(cur.a[1]) IN
     IF in # NOSH /\ AllLit(in) THEN Replace(ConstNode(Scalar("i", SeqProd(Lits(in)))), NOSYM, {})
     ELSE NoReplace(NOSYM)
EvalGather ==
  /\ Evaluating("Gather")
  /\ LET sv == ShapeValue(cur.a[1]) IN
     IF sv = NOSV \/ cur.p[2] # 1 \/ cur.p[1] = 1 THEN NoReplace(NOSYM)     \* axis attribute must be present and 0; indices 1-D
     ELSE LET ix == cur.a[2].v
              g == [j \in 1..Len(ix) |-> sv[(IF ix[j] < 0 THEN ix[j] + Len(sv) ELSE ix[j]) + 1]]
          IN IF AllLit(g) THEN Replace(ConstNode(Vec("i", Lits(g))), SymShapeV(g), {})
             ELSE NoReplace(SymShapeV(g))
\* Add: both operands single known dims; int+int -> int, otherwise the composite symbol "d0+d1"
AddDim(o) == LET sv == ShapeValue(o) IN IF sv = NOSV \/ Len(sv) # 1 \/ IsUnk(sv[1]) THEN UNKD ELSE sv[1]
EvalAdd ==
  /\ Evaluating("Add")
  /\ LET d0 == AddDim(cur.a[1]) d1 == AddDim(cur.a[2]) IN
     IF IsUnk(d0) \/ IsUnk(d1) THEN NoReplace(NOSYM)
     ELSE NoReplace(SymShapeV(<<IF IsLit(d0) /\ IsLit(d1) THEN Lit(d0[1] + d1[1]) ELSE d0 \o d1>>))
\* Abs -> Identity.  Code: unless a dim is a negative literal.  Design: only when every dim is known non-negative.
NonNegDim(d) == IsUnk(d) \/ \A i \in 1..Len(d) : d[i] >= 0
AbsCodeGuard(sv) == sv # NOSV /\ ~\E i \in 1..Len(sv) : IsLit(sv[i]) /\ sv[i][1] < 0
AbsDesignGuard(sv) == sv # NOSV /\ \A i \in 1..Len(sv) : NonNegDim(sv[i])
EvalAbs ==
  /\ Evaluating("Abs")
  /\ LET sv == ShapeValue(cur.a[1])
         fa == faithful /\ ~("abs_assumes_nonneg" \in Deviations /\ AbsCodeGuard(sv) /\ ~AbsDesignGuard(sv))
     IN IF AbsDesignGuard(sv) THEN ReplaceF(IdentityOf(cur.a[1]), NOSYM, {}, fa) ELSE NoReplaceF(NOSYM, fa)
Dev_AbsIdentity_MaybeNegative ==
  /\ Evaluating("Abs") /\ "abs_assumes_nonneg" \in Deviations
  /\ LET sv == ShapeValue(cur.a[1]) IN
     /\ AbsCodeGuard(sv) /\ ~AbsDesignGuard(sv)
     /\ Replace(IdentityOf(cur.a[1]), NOSYM, {"abs_assumes_nonneg"})
\* _propagate_shape_value: the symbolic value of input 0 also describes output 0
Propagated == LET sv == ShapeValue(cur.a[1]) IN IF sv = NOSV THEN NOSYM ELSE SymShapeV(sv)
EvalReshape ==
  /\ Evaluating("Reshape")
  /\ LET in == SShapeOf(cur.a[1]) sv == ShapeValue(cur.a[2]) IN
     IF sv # NOSV /\ in # NOSH /\ SameShape(in, sv) THEN Replace(IdentityOf(cur.a[1]), NOSYM, {})
     ELSE NoReplace(Propagated)
EvalSqueeze == Evaluating("Squeeze") /\ NoReplace(Propagated)
EvalCast ==      \* Identity when the input already has the target element type (int64 = 7, int32 = 6)
  /\ Evaluating("Cast")
  /\ LET o == cur.a[1]
         indt == IF o.t = "c" \/ meta[o.i].k = "i" THEN 7 ELSE IF meta[o.i].k = "j" THEN 6 ELSE 1
     IN IF cur.p[1] = indt THEN Replace(IdentityOf(o), NOSYM, {}) ELSE NoReplace(NOSYM)
\* Identity: backward shape inference (input.shape := merge(input.shape, output.shape)), output := input
EvalIdentity ==
  /\ Evaluating("Identity")
  /\ LET o == cur.a[1]
         m == IF o.t = "r" THEN MergeShapes(SShapeOf(o), SShapeOf(R(vcur))) ELSE SFAIL
     IN /\ symmap' = [symmap EXCEPT ![vcur] = SymVal(o)]
        /\ IF Foldable(cur)
           THEN LET c == EvalNode(cur, cval) IN
                /\ cval' = [cval EXCEPT ![vcur] = c]
                /\ sshape' = [sshape EXCEPT ![vcur] = IF @ \in {NOSH, NOTYPE} THEN LitShape(c.shape) ELSE @]   \* replace_nodes_and_values keeps the old value's shape
                /\ Advance([k |-> "fold", n |-> ConstNode(c), dev |-> {}])
           ELSE /\ cval' = cval
                /\ sshape' = IF m = SFAIL THEN sshape ELSE [sshape EXCEPT ![o.i] = m]
                /\ Advance([k |-> Kind(cur), n |-> cur, dev |-> {}])
  /\ UNCHANGED <<ins, nodes, meta, stage, rep, faithful>>
ZeroSize(o, axis) == LET s == SShapeOf(o) IN
                     s # NOSH /\ axis >= -Len(s) /\ axis < Len(s) /\ s[(IF axis < 0 THEN axis + Len(s) ELSE axis) + 1] = Lit(0)
EvalConcat ==
  /\ Evaluating("Concat")
  /\ LET n == Len(cur.a)
         axis == cur.p[1]
         keep == SelectSeq(cur.a, LAMBDA o : ~ZeroSize(o, axis))
         svs == [j \in 1..n |-> ShapeValue(cur.a[j])]
     IN IF n = 1 THEN Replace(IdentityOf(cur.a[1]), NOSYM, {})
        ELSE IF Len(keep) # n THEN (IF keep # <<>> THEN Replace([cur EXCEPT !.a = keep], NOSYM, {})
                                    ELSE Replace(IdentityOf(cur.a[1]), NOSYM, {}))
        ELSE IF axis # 0 \/ \E j \in 1..n : svs[j] = NOSV THEN NoReplace(NOSYM)
        ELSE LET RECURSIVE Cat(_)
                 Cat(j) == IF j > n THEN <<>> ELSE svs[j] \o Cat(j + 1)
             IN NoReplace(SymShapeV(Cat(1)))
EvalExpand ==
  /\ Evaluating("Expand")
  /\ LET in == SShapeOf(cur.a[1]) k == ConstOf(cur.a[2]) sv == ShapeValue(cur.a[2]) IN
     IF in = NOSH THEN NoReplace(NOSYM)
     ELSE IF k # NOC THEN (IF Rank(k) = 1 /\ in = LitShape(k.data) THEN Replace(IdentityOf(cur.a[1]), NOSYM, {}) ELSE NoReplace(NOSYM))
     ELSE IF sv # NOSV /\ SameShape(in, sv) THEN Replace(IdentityOf(cur.a[1]), NOSYM, {})
     ELSE NoReplace(NOSYM)
\* ops without a partial evaluator (and the Constant nodes created above)
EvalGeneric ==
  /\ Folding /\ phase = "eval"
  /\ cur.op \in {"Sub", "Mul", "Neg", "Relu", "Slice", "Constant"}
  /\ NoReplace(NOSYM)

Fold == \/ ResolveAndInfer \/ EvalShape \/ EvalSize \/ EvalGather \/ EvalAdd \/ EvalAbs \/ Dev_AbsIdentity_MaybeNegative
        \/ EvalReshape \/ EvalSqueeze \/ EvalCast \/ EvalIdentity \/ EvalConcat \/ EvalExpand \/ EvalGeneric

-----------------------------------------------------------------------------
(* every binding: run original and folded graph, check every abstract fact *)
ConcMatch(d, data, b) == Len(d) = Len(data) /\ \A i \in 1..Len(d) : IsUnk(d[i]) \/ Conc(d[i], b) = data[i]
ShapeFits(sh, t, b) == Len(sh) = Rank(t) /\ \A i \in 1..Len(sh) : IsUnk(sh[i]) \/ Conc(sh[i], b) = t.shape[i]
Check(j, fs) ==
  LET b == BindFn(j, fs)
      vo == EvalOrig(Len(nodes), b)
      vf == EvalFolded(Len(nodes), b)
      outs == OutSeq(nodes)
      ok == \A i \in 1..Len(outs) : ~Bad(vo[outs[i]])
  IN [b |-> BindOf(j, fs),
      ok |-> ok,
      un |-> \E i \in 1..NV : vo[i].dt = "UNSPEC",
      o |-> IF ok THEN [i \in 1..Len(outs) |-> <<vo[outs[i]].shape, vo[outs[i]].data>>] ELSE <<>>,
      same |-> ok => \A i \in 1..Len(outs) : vf[outs[i]] = vo[outs[i]],
      symok |-> ok => \A i \in 1..NV : symmap[i].k = "shape" => ConcMatch(symmap[i].d, vo[i].data, b),
      valok |-> ok => \A i \in 1..NV : symmap[i].k = "val" => vo[i] = OV(symmap[i].o, vo),
      cvok |-> ok => \A i \in 1..NV : cval[i] # NOC => vo[i] = cval[i],
      shok |-> ok => \A i \in 1..NV : sshape[i] \notin {NOSH, NOTYPE} => ShapeFits(sshape[i], vo[i], b)]

Finish == /\ stage = "fold" /\ pc > Len(nodes)
          /\ stage' = "done"
          /\ rep' = LET fs == FreeSeq IN [j \in 1..NBOf(fs) |-> Check(j, fs)]
          /\ UNCHANGED <<ins, nodes, meta, pc, phase, cur, sshape, cval, symmap, dec, faithful>>

Init == /\ ins \in InputMenu
        /\ nodes = <<>> /\ stage = "build" /\ pc = 0 /\ phase = "" /\ cur = Node("", <<>>, <<>>)
        /\ meta = [i \in 1..Len(ins) |-> MetaF(Len(ins[i]))]
        /\ sshape = <<>> /\ cval = <<>> /\ symmap = <<>> /\ dec = <<>> /\ rep = <<>> /\ faithful = TRUE
Next == Gen \/ StartFold \/ Fold \/ Finish
Spec == Init /\ [][Next]_vars

-----------------------------------------------------------------------------
(* properties *)
Done == stage = "done"
AllOK(r) == r.same /\ r.symok /\ r.valok /\ r.cvok /\ r.shok
UsedDevs == UNION {dec[k].dev : k \in 1..Len(dec)}
\* C09 at design level: in every pass that takes no deviation step, whatever was derived from shapes holds at
\* every accepted binding, and the folded model returns what the original returns.  (With Deviations = {} these
\* are all passes; with Deviations = AllDevs the design's step stays enabled next to the code's, so one run
\* checks the design and produces the implementation model's predictions.)
DesignSound == (Done /\ UsedDevs = {}) => \A j \in 1..Len(rep) : AllOK(rep[j])
\* the same without the escape: must FAIL when deviations are on (SymShape_vacuity.cfg)
Sound == Done => \A j \in 1..Len(rep) : AllOK(rep[j])
\* static shapes are sound in both models (the deviation does not touch them)
ShapesSound == Done => \A j \in 1..Len(rep) : rep[j].shok
\* non-vacuity witnesses (negated: TLC must report a violation)
NoSymbolicReshapeIdentity == ~(Done /\ \E k \in 1..Len(nodes) : nodes[k].op = "Reshape" /\ dec[k].k = "ident"
                                       /\ ~AllLit(sshape[nodes[k].a[1].i]) /\ \E j \in 1..Len(rep) : rep[j].ok)
NoCompositeSymbol == ~(Done /\ \E i \in 1..NV : symmap[i].k = "shape" /\ \E q \in 1..Len(symmap[i].d) : Len(symmap[i].d[q]) > 1)

\* one JSON line per finished pass of the implementation model (faithful: took the code's step everywhere);
\* printed as a bare string so that the harness can read it with a C-speed JSON parser
Emit == (Done /\ faithful) =>
          PrintT(ToJson([ins |-> ins, nodes |-> nodes, outs |-> OutSeq(nodes), free |-> FreeSeq,
                                   meta |-> meta, sym |-> symmap, sshape |-> sshape, dec |-> dec, devs |-> UsedDevs,
                                   rep |-> [j \in 1..Len(rep) |-> [b |-> rep[j].b, ok |-> rep[j].ok, un |-> rep[j].un, o |-> rep[j].o,
                                                                   same |-> rep[j].same, abs |-> AllOK(rep[j])]]]))

-----------------------------------------------------------------------------
(* configurations *)
N == 1001
M == 1002
K == 1003
U1 == 2001
U2 == 2002
U3 == 2003
MenuQuick == {<< <<N>> >>, << <<N, M>> >>, << <<N, 0>> >>, << <<U1, 3>>, <<U2, 3>> >>, << <<N, 3>>, <<M, 3>> >>}
MenuTwo == {<< <<N, 3>>, <<N, 3>> >>, << <<N, M>>, <<M>> >>, << <<U1, 3>>, <<U2, 3>> >>, << <<N, 3>>, <<M, 3>> >>,
            << <<N, 1>>, <<1, M>> >>, << <<N, 3>>, <<0, 3>> >>}
MenuSim == MenuQuick \cup MenuTwo \cup
           {<< <<N, M, K>> >>, << <<N, 1, M>> >>, << <<U1, N>>, <<U2, N>> >>, << <<N, M>>, <<N, K>> >>, << <<2, N>>, <<N>> >>,
            << <<N, M>>, <<N, M>> >>, << <<1, N>>, <<M, 1>> >>, << <<U1, U2, 2>> >>, << <<N, N>> >>, << <<0, N>>, <<M, N>> >>}
MenuThorough == MenuQuick \cup MenuTwo \cup {<< <<U1, U2>> >>, << <<2, 3>> >>, << <<N, 4>> >>}
MenuChain == {<< <<N>> >>}
MenuAttr == {<< <<N, 3, 4>> >>, << <<N, M>> >>, << <<N>> >>}
MenuChainT == {<< <<N>> >>, << <<N, 0>> >>, << <<N, M>> >>, << <<U1, U2>> >>}
ValsStd == {0, 1, 2, 3, 7}
=============================================================================
