SPECIFICATION Spec
CONSTANTS
  Deviations <- RealDevs
  RuleSets <- VacuitySets
  MaxDepth = 2
  Wide = FALSE
INVARIANT Holds
CHECK_DEADLOCK FALSE
