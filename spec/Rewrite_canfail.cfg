SPECIFICATION Spec
CONSTANTS
  Deviations <- RealDevs
  RuleSets <- VacuitySets
  MaxDepth = 1
  Wide = FALSE
INVARIANT Holds
CHECK_DEADLOCK FALSE
