SPECIFICATION Spec
CONSTANTS
  Deviations <- AllDevs
  Shapes <- ShapesQuick
  FullRanks <- FullQuick
INVARIANT DesignOK
INVARIANT DeviationsExplain
CHECK_DEADLOCK FALSE
