SPECIFICATION Spec
CONSTANTS
  Deviations <- AllDevs
  Ranks <- R234
  Big = FALSE
INVARIANT ImplInv
INVARIANT NoSpuriousBlame
INVARIANT WellFormed
CHECK_DEADLOCK FALSE
