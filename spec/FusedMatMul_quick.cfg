SPECIFICATION Spec
CONSTANTS
  Deviations <- AllDevs
  Ranks <- R23
  Big = FALSE
INVARIANT ImplInv
INVARIANT NoSpuriousBlame
INVARIANT WellFormed
CHECK_DEADLOCK FALSE
