SPECIFICATION Spec
CONSTANTS
  Deviations <- AllDevs
  Big = FALSE
INVARIANT ImplInv
INVARIANT NoSpuriousBlame
INVARIANT WellFormed
CHECK_DEADLOCK FALSE
