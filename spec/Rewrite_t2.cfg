SPECIFICATION Spec
CONSTANTS
  Deviations <- NoDevs
  RuleSets <- TinySets
  MaxDepth = 1
  Wide = FALSE
CHECK_DEADLOCK FALSE
