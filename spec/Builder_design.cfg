SPECIFICATION Spec
CONSTANTS
  Deviations <- NoDevs
  MaxCalls = 3
  MaxDepth = 1
  Ops = {"Add"}
  LitMenu = {"i1"}
  InMenu = {1, 4}
  Trips = {2}
  Kinds = {"if", "loop"}
  FnMenu = {1, 2, 3, 4}
  CarryMenu = {}
  LitOnly = FALSE
  Sim = FALSE
INVARIANT DesignOK
INVARIANT ImplIsDesign
INVARIANT ScopeBalanced
CHECK_DEADLOCK FALSE
