SPECIFICATION Spec
CONSTANTS
  Deviations <- AllDevs
  Ranks <- R234
  Big = TRUE
INVARIANT ImplInv
INVARIANT NoSpuriousBlame
INVARIANT WellFormed
CHECK_DEADLOCK FALSE
