SPECIFICATION Spec
CONSTANTS
  Deviations <- AllDevs
  Big = TRUE
INVARIANT ImplInv
INVARIANT NoSpuriousBlame
INVARIANT WellFormed
CHECK_DEADLOCK FALSE
