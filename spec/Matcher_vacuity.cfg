SPECIFICATION Spec
CONSTANTS
  Deviations <- RealDevs
  MaxPNodes = 1
  Features <- AllFeatures
  OpSet <- AllOps
  VarVals <- Vals3
INVARIANT SomeMatch
CHECK_DEADLOCK FALSE
