---------------------------- MODULE OpsetDispatch ----------------------------
(* C17: generated opset classes mirror the ONNX operator schemas.                                *)
(*                                                                                               *)
(* The operator schemas are the REAL registry: the harness dumps onnx.defs (every schema of      *)
(* every version of the exposed domains: inputs with their option, attributes with required /    *)
(* default) to JSON (SCHEMAS_FILE).  From that data this module                                  *)
(*   - models what `python -m opgen` generates (one class per opset version deriving from the    *)
(*     class of the previous version; one method per schema introduced at that version;          *)
(*     parameter list = inputs ++ attributes; deprecated schemas are skipped),                   *)
(*   - runs one attribute access + one eager call `opsetN.Op(pos.., kw..)` as a state machine,    *)
(*     one action per step of the real code:                                                     *)
(*        MroStep/MroFound/MroTomb/MroBottom   Python attribute lookup along the class chain     *)
(*        DynLookup        Opset.__getitem__/__contains__/__getattr__ : onnx.defs.get_schema     *)
(*        ChooseCall       the caller's positional arguments and keyword attributes              *)
(*        Bind             Python binds arguments to the generated parameter list (defaults)     *)
(*        GetSchema        `schema = get_schema(name, <since constant>, domain)`                 *)
(*        Prepare/TrimPop/TrimStop   Opset._prepare_inputs: `while l and l[-1] is None: l.pop()` *)
(*        Forward          `Op(self, name, schema)(inputs.., attrs..)` -> evaluator.eval_op       *)
(*     and, from the same attribute access, one TRANSLATION of `opsetN.Op(..)` inside a script:  *)
(*        TransCallee      converter._translate_callee_expr: values.Op(opsetN, name) = opsetN[name]*)
(*        TransEmit        the emitted node records its opset in graph.opset_imports             *)
(*        ToModel          OnnxFunction.to_model_proto(opset_version = req), req in              *)
(*                         {none, N, M # N}: the argument is consulted only when the standard     *)
(*                         opset cannot be inferred from the opset classes the script used       *)
(*   - and states the property (Mirror, DynAgrees) against the declarative reading of ONNX:      *)
(*     Resolve = schema with the greatest since_version <= N; DesignTrim = cut after the last    *)
(*     non-None input.                                                                           *)
(* Deviations: "deprecated_op_inherited" - opgen skips a deprecated schema instead of masking    *)
(*     the inherited method, so OpsetN.Op keeps denoting the last non-deprecated version.        *)
(*   "opset_version_overrides" (not in the code today; shows TransMirror can fail) - a requested *)
(*     opset_version replaces the standard opset import although opsetN was used.                *)
(* Values: the k-th positional argument is the sentinel k, None is 0; the j-th attribute (in the *)
(* order of the dumped schema = sorted by name) given by the caller is the sentinel 100+j, an    *)
(* attribute left out is DFLT (= "whatever default the generated parameter has", which the       *)
(* signature table SigTable pins to the schema default).                                         *)
EXTENDS Integers, Sequences, FiniteSets, TLC, Json, IOUtils

CONSTANTS Deviations,      \* set of deviation ids the implementation model includes
          MaxExtra,        \* actuals explored for a variadic formal: 0..MaxExtra
          AttrModes,       \* subset of {"omit", "all", "one"}
          VarNone,         \* TRUE: also a trailing None inside the variadic tail
          ReqVersions      \* fixed versions tried as `opset_version` (besides none, N and the op's change points)

Reg == JsonDeserialize(IOEnv.SCHEMAS_FILE)
Domains == DOMAIN Reg.maxver
MaxVer(d) == Reg.maxver[d]
Probe(d) == {Reg.probe[d][i] : i \in 1..Len(Reg.probe[d])}    \* op names looked up (incl. a bogus one)
Hist(d, n) == Reg.ops[d][n]                                   \* versions of op n, ascending since

DFLT == -1
Max(S) == CHOOSE x \in S : \A y \in S : y <= x

\* ---------------------------------------------------------------- ONNX, declaratively
ResolveIdx(d, n, v) == LET S == {k \in 1..Len(Hist(d, n)) : Hist(d, n)[k].since <= v}
                       IN IF S = {} THEN 0 ELSE Max(S)
ResolveSince(d, n, v) == LET k == ResolveIdx(d, n, v) IN IF k = 0 THEN 0 ELSE Hist(d, n)[k].since
Live(d, n, v) == LET k == ResolveIdx(d, n, v) IN k # 0 /\ ~Hist(d, n)[k].dep
SchemaAt(d, n, s) == Hist(d, n)[CHOOSE k \in 1..Len(Hist(d, n)) : Hist(d, n)[k].since = s]
DesignTrim(p) == LET S == {i \in 1..Len(p) : p[i] # 0} IN IF S = {} THEN <<>> ELSE SubSeq(p, 1, Max(S))
\* a deprecated schema that hides an earlier live one (guard of deprecated_op_inherited)
DeprecatedShadow(d, n, v) == LET k == ResolveIdx(d, n, v) IN
                             k # 0 /\ Hist(d, n)[k].dep /\ \E j \in 1..(k - 1) : ~Hist(d, n)[j].dep

\* ---------------------------------------------------------------- what opgen generates
\* class Opset<d><v> (v in 1..MaxVer(d)) derives from Opset<d><v-1>; its own body has:
GenKind(d, v, n) == LET S == {k \in 1..Len(Hist(d, n)) : Hist(d, n)[k].since = v} IN
                    IF S = {} THEN "none"
                    ELSE IF ~Hist(d, n)[CHOOSE k \in S : TRUE].dep THEN "method"
                    ELSE IF "deprecated_op_inherited" \in Deviations THEN "none"   \* code: `continue`
                    ELSE "tombstone"                                               \* design: inherited method masked
NIn(s) == Len(s.ins)
NAttr(s) == Len(s.attrs)
HasVar(s) == NIn(s) > 0 /\ s.ins[NIn(s)].opt = "V"
NFixed(s) == IF HasVar(s) THEN NIn(s) - 1 ELSE NIn(s)
\* an input named like an attribute is disambiguated (Split-1)
InputParamName(s, i) == IF \E j \in 1..NAttr(s) : s.attrs[j].name = s.ins[i].name
                        THEN s.ins[i].name \o "_" ELSE s.ins[i].name
\* optional inputs default to None unless a variadic input follows (pylint W1113: Loop, Scan)
InputHasDefault(s, i) == s.ins[i].opt = "O" /\ ~\E j \in (i + 1)..NIn(s) : s.ins[j].opt = "V"
Params(s) == [k \in 1..(NIn(s) + NAttr(s)) |->
                IF k <= NIn(s)
                THEN [name |-> InputParamName(s, k),
                      kind |-> IF s.ins[k].opt = "V" THEN "var" ELSE "pos",
                      dflt |-> IF InputHasDefault(s, k) THEN "None" ELSE "required"]
                ELSE LET a == s.attrs[k - NIn(s)] IN
                     [name |-> a.name, kind |-> "kw",
                      dflt |-> IF a.req THEN "required" ELSE IF a.hasdef THEN a.dflt ELSE "None"]]
SchemaKeys == UNION {UNION {{<<d, n, k>> : k \in 1..Len(Hist(d, n))} : n \in Probe(d)} : d \in Domains}
\* the parameter list of every generated method (printed for the harness by OpsetSignatures.tla)
SigTable == {[dom |-> x[1], name |-> x[2], since |-> Hist(x[1], x[2])[x[3]].since, params |-> Params(Hist(x[1], x[2])[x[3]])] :
                x \in {y \in SchemaKeys : ~Hist(y[1], y[2])[y[3]].dep}}

\* ---------------------------------------------------------------- one access + one call
VARIABLES dom, name, ver,  \* the case: opset<dom><ver>.<name>
          pc, cls,         \* control; class currently searched by attribute lookup
          owner,           \* version of the class whose body defines the method found (0: none)
          dyn,             \* since_version of the schema the dynamic lookup returns (0: None / raises)
          pos, given,      \* caller's positional arguments; set of attribute indices passed by keyword
          inputs, kw,      \* parameters after Python's binding (inputs flattened: fixed ++ varargs)
          used,            \* since_version passed to get_schema by the method body
          prep, pops,      \* _prepare_inputs: working list, number of pops so far
          event,           \* what reaches evaluator.eval_op
          want,            \* the declarative reading, for the harness
          callee,          \* translation: since_version of the schema the converter classifies the node against
          gstd,            \* translation: standard-domain entry of graph.opset_imports (0: none recorded)
          req,             \* to_model_proto(opset_version = req); 0: not passed
          mstd             \* standard opset import of the ModelProto
tvars == <<callee, gstd, req, mstd>>
vars == <<dom, name, ver, pc, cls, owner, dyn, pos, given, inputs, kw, used, prep, pops, event, want, callee, gstd, req, mstd>>

NoEvent == [since |-> 0, self |-> 0, prepared |-> FALSE, inputs |-> <<>>, kw |-> <<>>]
NoWant == [since |-> 0, live |-> FALSE, shadow |-> FALSE, inputs |-> <<>>, std |-> 0]

Init == /\ dom \in Domains /\ name \in Probe(dom) /\ ver \in 1..MaxVer(dom)
        /\ pc = "mro" /\ cls = ver /\ owner = 0 /\ dyn = 0
        /\ pos = <<>> /\ given = {} /\ inputs = <<>> /\ kw = <<>> /\ used = 0 /\ prep = <<>> /\ pops = 0
        /\ event = NoEvent /\ want = NoWant
        /\ callee = 0 /\ gstd = 0 /\ req = 0 /\ mstd = 0

\* --- type(opsetN).__mro__ walk
MroStep == /\ pc = "mro" /\ GenKind(dom, cls, name) = "none" /\ cls > 1
           /\ cls' = cls - 1
           /\ UNCHANGED <<tvars, dom, name, ver, pc, owner, dyn, pos, given, inputs, kw, used, prep, pops, event, want>>
MroFound == /\ pc = "mro" /\ GenKind(dom, cls, name) = "method"
            /\ owner' = cls /\ pc' = "lookup"
            /\ UNCHANGED <<tvars, dom, name, ver, cls, dyn, pos, given, inputs, kw, used, prep, pops, event, want>>
MroTomb == /\ pc = "mro" /\ GenKind(dom, cls, name) = "tombstone"
           /\ owner' = 0 /\ pc' = "lookup"
           /\ UNCHANGED <<tvars, dom, name, ver, cls, dyn, pos, given, inputs, kw, used, prep, pops, event, want>>
MroBottom == /\ pc = "mro" /\ GenKind(dom, cls, name) = "none" /\ cls = 1      \* base class Opset has no op methods
             /\ owner' = 0 /\ pc' = "lookup"
             /\ UNCHANGED <<tvars, dom, name, ver, cls, dyn, pos, given, inputs, kw, used, prep, pops, event, want>>
\* --- opset[name] / name in opset / Opset.__getattr__: onnx.defs.get_schema(name, self.version, self.domain)
DynLookup == /\ pc = "lookup"
             /\ dyn' = ResolveSince(dom, name, ver)
             /\ want' = [since |-> ResolveSince(dom, name, ver), live |-> Live(dom, name, ver),
                         shadow |-> DeprecatedShadow(dom, name, ver), inputs |-> <<>>, std |-> 0]
             /\ pc' = IF owner = 0 THEN "nomethod" ELSE "found"
             /\ UNCHANGED <<tvars, dom, name, ver, cls, owner, pos, given, inputs, kw, used, prep, pops, event>>

\* --- the caller
Sch == SchemaAt(dom, name, owner)
MinPos(s) == LET S == {i \in 1..NFixed(s) : ~InputHasDefault(s, i)} IN IF S = {} THEN 0 ELSE Max(S)
PosChoices(s) ==
  UNION {{[i \in 1..L |-> IF b[i] = 1 THEN i ELSE 0] :
            b \in {b \in [1..L -> {0, 1}] :
                     /\ \A i \in 1..L : (i <= NFixed(s) /\ s.ins[i].opt = "S") => b[i] = 1
                     /\ \A i \in 1..L : i > NFixed(s) => (b[i] = 1 \/ (VarNone /\ i = L /\ L > NFixed(s) + 1))}} :
         L \in MinPos(s)..(IF HasVar(s) THEN NFixed(s) + MaxExtra ELSE NFixed(s))}
Required(s) == {j \in 1..NAttr(s) : s.attrs[j].req}
GivenChoices(s) ==
  (IF "omit" \in AttrModes THEN {Required(s)} ELSE {})
  \cup (IF "all" \in AttrModes THEN {1..NAttr(s)} ELSE {})
  \cup (IF "one" \in AttrModes THEN {Required(s) \cup {j} : j \in (1..NAttr(s)) \ Required(s)} ELSE {})
ChooseCall == /\ pc = "found"
              /\ \E p \in PosChoices(Sch), g \in GivenChoices(Sch) : pos' = p /\ given' = g
              /\ pc' = "bind"
              /\ UNCHANGED <<tvars, dom, name, ver, cls, owner, dyn, inputs, kw, used, prep, pops, event, want>>
\* --- Python binds the call to `def Op(self, <inputs>, *, <attributes>)`
Bind == /\ pc = "bind"
        /\ inputs' = [i \in 1..(IF Len(pos) > NFixed(Sch) THEN Len(pos) ELSE NFixed(Sch)) |->
                        IF i <= Len(pos) THEN pos[i] ELSE 0]          \* omitted optional input: default None
        /\ kw' = [j \in 1..NAttr(Sch) |-> IF j \in given THEN 100 + j ELSE DFLT]
        /\ pc' = "getschema"
        /\ UNCHANGED <<tvars, dom, name, ver, cls, owner, dyn, pos, given, used, prep, pops, event, want>>
\* --- schema = get_schema("<name>", <since>, "<domain>"): the constant is the version of the generating schema
GetSchema == /\ pc = "getschema"
             /\ used' = owner
             /\ pc' = IF NIn(Sch) = 0 THEN "forward" ELSE "prepare"     \* no inputs: `op(attrs..)` without _prepare_inputs
             /\ UNCHANGED <<tvars, dom, name, ver, cls, owner, dyn, pos, given, inputs, kw, prep, pops, event, want>>
\* --- Opset._prepare_inputs(schema, inputs..)
Prepare == /\ pc = "prepare"
           /\ prep' = inputs /\ pops' = 0 /\ pc' = "trim"
           /\ UNCHANGED <<tvars, dom, name, ver, cls, owner, dyn, pos, given, inputs, kw, used, event, want>>
LastIsNone(l) == IF Len(l) = 0 THEN FALSE ELSE l[Len(l)] = 0
TrimPop == /\ pc = "trim" /\ LastIsNone(prep)
           /\ prep' = SubSeq(prep, 1, Len(prep) - 1) /\ pops' = pops + 1
           /\ UNCHANGED <<tvars, dom, name, ver, pc, cls, owner, dyn, pos, given, inputs, kw, used, event, want>>
TrimStop == /\ pc = "trim" /\ ~LastIsNone(prep)
            /\ pc' = "forward"
            /\ UNCHANGED <<tvars, dom, name, ver, cls, owner, dyn, pos, given, inputs, kw, used, prep, pops, event, want>>
\* --- Op(self, name, schema)(prepared.., attrs..) -> evaluator.default().eval_op(op, args, kwargs)
Forward == /\ pc = "forward"
           /\ event' = [since |-> used, self |-> ver, prepared |-> NIn(Sch) > 0,
                        inputs |-> IF NIn(Sch) > 0 THEN prep ELSE <<>>, kw |-> kw]
           /\ want' = [want EXCEPT !.inputs = DesignTrim(pos)]
           /\ pc' = "done"
           /\ UNCHANGED <<tvars, dom, name, ver, cls, owner, dyn, pos, given, inputs, kw, used, prep, pops>>

\* ---------------------------------------------------------------- one translation of `opsetN.Op(..)` in a script
StdDom == "onnx"
DefaultStd == MaxVer(StdDom)                \* onnx.defs.onnx_opset_version()
\* versions around which the operator changes meaning: the next schema version and the last version of the previous one
ChangePoints(d, n, v) == LET k == ResolveIdx(d, n, v) IN
                         (IF k # 0 /\ k < Len(Hist(d, n)) THEN {Hist(d, n)[k + 1].since} ELSE {})
                         \cup (IF k > 1 THEN {Hist(d, n)[k].since - 1} ELSE {})
ReqChoices(d, n, v) == {0, v} \cup {m \in ReqVersions \cup (IF d = StdDom THEN ChangePoints(d, n, v) ELSE {}) : m # v}
\* --- converter._translate_callee_expr: values.Op(module, attr) without schema -> module[attr] (dynamic lookup)
TransCallee == /\ pc = "found"
               /\ callee' = dyn /\ pc' = "t_callee"
               /\ UNCHANGED <<dom, name, ver, cls, owner, dyn, pos, given, inputs, kw, used, prep, pops, event, want, gstd, req, mstd>>
\* --- irbuilder: the node's opset is recorded in graph.opset_imports[domain] = version
TransEmit == /\ pc = "t_callee"
             /\ gstd' = (IF dom = StdDom THEN ver ELSE 0) /\ pc' = "t_emit"
             /\ UNCHANGED <<dom, name, ver, cls, owner, dyn, pos, given, inputs, kw, used, prep, pops, event, want, callee, req, mstd>>
\* --- OnnxFunction._to_model_proto: `if "" not in opset_imports: opset_imports[""] = opset_version or onnx_opset_version()`
ModelStd(g, r) == IF "opset_version_overrides" \in Deviations /\ r # 0 THEN r
                  ELSE IF g # 0 THEN g ELSE IF r # 0 THEN r ELSE DefaultStd
ToModel == /\ pc = "t_emit"
           /\ \E r \in ReqChoices(dom, name, ver) :
                 /\ req' = r /\ mstd' = ModelStd(gstd, r)
                 /\ want' = [want EXCEPT !.std = IF dom = StdDom THEN ver ELSE IF r # 0 THEN r ELSE DefaultStd]
           /\ pc' = "t_model"
           /\ UNCHANGED <<dom, name, ver, cls, owner, dyn, pos, given, inputs, kw, used, prep, pops, event, callee, gstd>>
Next == MroStep \/ MroFound \/ MroTomb \/ MroBottom \/ DynLookup \/ ChooseCall \/ Bind \/ GetSchema
        \/ Prepare \/ TrimPop \/ TrimStop \/ Forward \/ TransCallee \/ TransEmit \/ ToModel
Spec == Init /\ [][Next]_vars

\* ---------------------------------------------------------------- the property
Resolved == pc \in {"found", "nomethod", "bind", "getschema", "prepare", "trim", "forward", "done", "t_callee", "t_emit", "t_model"}
\* a method exists exactly for the operators ONNX defines (and has not deprecated) at that version,
\* and it is the one generated from the schema ONNX resolves to
MethodMirror == Resolved => /\ (owner # 0) = Live(dom, name, ver)
                            /\ owner # 0 => owner = ResolveSince(dom, name, ver)
\* the call reaches the evaluator with that schema, the caller's inputs minus trailing Nones only,
\* and every attribute under its own name (given value, or the parameter default)
CallMirror == pc = "done" =>
                 /\ event.since = ResolveSince(dom, name, ver)
                 /\ event.self = ver
                 /\ event.inputs = DesignTrim(pos)
                 /\ LET r == SchemaAt(dom, name, ResolveSince(dom, name, ver)) IN
                    /\ Len(event.kw) = NAttr(r)
                    /\ \A j \in 1..NAttr(r) : event.kw[j] = IF j \in given THEN 100 + j ELSE DFLT
                    /\ [j \in 1..NAttr(r) |-> r.attrs[j].name] = [j \in 1..NAttr(Sch) |-> Sch.attrs[j].name]
Mirror == MethodMirror /\ CallMirror
\* dynamic lookup agrees with the static class
DynAgrees == (Resolved /\ owner # 0) => dyn = owner
\* opsetN.Op denotes the same schema in translation as in eager mode: the node is classified against the schema the
\* method evaluates, the model's standard opset import is the N of the opset class used (whatever opset_version the
\* caller passes) so that the node, read in the model, resolves to that same schema; the argument decides only when
\* no standard opset was used
TransMirror == pc = "t_model" =>
                  /\ callee = owner
                  /\ dom = StdDom => (mstd = ver /\ ResolveSince(dom, name, mstd) = owner)
                  /\ dom # StdDom => mstd = (IF req # 0 THEN req ELSE DefaultStd)
\* with the deviations switched on, every departure is explained by a deviation's guard
Explained == (~Mirror \/ ~DynAgrees \/ ~TransMirror) =>
                \/ "deprecated_op_inherited" \in Deviations /\ DeprecatedShadow(dom, name, ver)
                \/ "opset_version_overrides" \in Deviations /\ pc = "t_model" /\ dom = StdDom /\ req \notin {0, ver}
\* the trimming loop terminates with exactly the declarative result at every intermediate step
TrimInv == pc = "trim" => /\ Len(prep) + pops = Len(inputs)
                          /\ \A i \in (Len(prep) + 1)..Len(inputs) : inputs[i] = 0
                          /\ SubSeq(inputs, 1, Len(prep)) = prep

\* ---------------------------------------------------------------- non-vacuity witnesses (must be violated)
SomeInherited == ~(pc = "done" /\ owner < ver)
SomeInnerNone == ~(pc = "done" /\ pops > 0 /\ \E i \in 1..Len(event.inputs) : event.inputs[i] = 0)
SomeVariadic == ~(pc = "done" /\ HasVar(Sch) /\ Len(pos) > NFixed(Sch) + 1)
SomeNoMethod == ~(pc = "nomethod" /\ dyn = 0)
SomeDeprecatedMasked == ~(pc = "nomethod" /\ dyn # 0)
SomeDefaulted == ~(pc = "done" /\ \E j \in 1..Len(event.kw) : event.kw[j] = DFLT)
SomeNoInputs == ~(pc = "done" /\ ~event.prepared)
SomeShadow == ~(Resolved /\ owner # 0 /\ DeprecatedShadow(dom, name, ver))
SomeRequestedOther == ~(pc = "t_model" /\ dom = StdDom /\ req \notin {0, ver} /\ ResolveSince(dom, name, req) # owner)
SomeNotInferred == ~(pc = "t_model" /\ dom # StdDom /\ req # 0 /\ mstd = req)

NoDevs == {}
RealDevs == {"deprecated_op_inherited"}    \* what the code does today
AllDevs == {"deprecated_op_inherited", "opset_version_overrides"}     \* every deviation the model knows
ShadowDev == {"deprecated_op_inherited"}                                        \* OpsetDispatch_canfail.cfg
OverrideDev == {"opset_version_overrides"}                              \* OpsetDispatch_canfail_trans.cfg
ReqQuick == {13}
ReqThorough == {7, 13, 18}
ModesQuick == {"omit", "all"}
ModesThorough == {"omit", "all", "one"}
=============================================================================
