---------------------------- MODULE VersionApply ----------------------------
(* C10 direction B - what ONE run of _VersionConverter.visit_model may do to a model, as an       *)
(* operational model of version_converter/_version_converter.py (visit_model /                   *)
(* visit_graph_or_function / visit_node / replace_node).                                          *)
(*                                                                                              *)
(* State: the model in token form (RewriteApply.tla) plus the per-node version bookkeeping the    *)
(* converter keeps in node.version, the opset each scope declares, the nodes a replacement        *)
(* removed and the nodes whose adapter raised.  The hooks (ONNXSCRIPT_VERIF=1) record the model    *)
(* and every node's version at the start, one Step per (node, version) the converter takes, one  *)
(* StepError per swallowed VersionConverterError, one SetOpset per declaration, and the model     *)
(* and versions at the end.  Each Step is EXECUTED on the abstract state:                         *)
(*   - a node moves exactly one version up, from the version it currently has,                   *)
(*   - it is replaced only where an adapter is registered for (operator, version); the            *)
(*     replacement reads visible values, takes over every use, enters at the next version,        *)
(*   - a node with nested graphs has all nodes of its bodies converted when its own step ends,    *)
(*   - at the end every default-domain node of every graph (bodies, functions) is at the target   *)
(*     version, every scope declares the target, and the model equals what the steps produce.     *)
EXTENDS RewriteApply

CONSTANT NoVersion
VARIABLES ver,       \* node token -> version (0 = node.version is None: the model's declared opset applies)
          declared,  \* scope token (main graph / function) -> declared opset version (0 = not declared by the converter yet)
          gone,      \* nodes removed by a replacement
          erred,     \* nodes whose adapter raised (swallowed)
          nsteps
vvars == <<gs, ns, napply, nfn, doms, rerr, ver, declared, gone, erred, nsteps>>

VMap(vs) == [n \in {vs[i][1] : i \in 1..Len(vs)} |-> vs[CHOOSE i \in 1..Len(vs) : vs[i][1] = n][2]]
VInit(m, vs) == /\ RInit(m) /\ ver = VMap(vs) /\ declared = [g \in {} |-> 0] /\ gone = {} /\ erred = {} /\ nsteps = 0

Cur(n, dflt) == IF n \in DOMAIN ver /\ ver[n] # 0 THEN ver[n] ELSE dflt
GraphOfNodeV(G, n) == IF \E g \in DOMAIN G : n \in SeqSet(G[g].order) THEN CHOOSE g \in DOMAIN G : n \in SeqSet(G[g].order) ELSE ""
\* all nodes inside the nested graphs of node n
RECURSIVE Nested(_, _, _)
Nested(G, N, n) ==
  IF n \notin DOMAIN N THEN {}
  ELSE UNION {SeqSet(G[g].order) \cup UNION {Nested(G, N, k) : k \in SeqSet(G[g].order)} : g \in {g \in SeqSet(N[n].subs) : g \in DOMAIN G}}

StepClauses(n, root, f, t, replaced, inserted, olds, news, newVers, adapters, dflt, target) ==
  IF n \in gone
  THEN \* the loop over versions goes on with the node it already replaced: nothing may happen
       <<<<"stale_step_on_a_replaced_node_changes_nothing", ~replaced>>>>
  ELSE
  LET ok == n \in DOMAIN ns /\ root \in DOMAIN gs
      A == AfterApply(root, n, {n}, inserted, olds, news, {})
  IN <<<<"step_node_known", ok>>,
       <<"step_root_holds_the_node", ok => n \in SeqSet(gs[root].order)>>,
       <<"step_only_default_domain_nodes", ok => ns[n].domain = "">>,
       <<"step_one_version_up", t = f + 1>>,
       <<"step_not_beyond_the_target", t <= target>>,
       <<"step_skips_a_version_after_swallowed_error", (n \in erred) => f = Cur(n, dflt)>>,
       <<"step_from_is_the_current_version", (n \notin erred) => f = Cur(n, dflt)>>,
       <<"step_replacement_only_by_a_registered_adapter", (ok /\ replaced) => <<ns[n].op, f>> \in adapters>>,
       <<"step_replacement_arity", replaced => Len(olds) = Len(news) /\ Len(newVers) = Len(inserted)>>,
       <<"step_old_outputs_are_the_outputs_of_the_node", (ok /\ replaced) => olds = ns[n].outs>>,
       <<"step_inserted_nodes_fresh", SeqSet(InsIds(inserted)) \cap DOMAIN ns = {} /\ NoDup(InsIds(inserted))>>,
       <<"step_node_with_bodies_is_not_replaced", (ok /\ replaced) => ns[n].subs = <<>> >>,
       <<"step_new_nodes_enter_at_the_next_version", \A i \in 1..Len(newVers) : newVers[i] = t>>,
       <<"step_replaced_values_unused",
         (ok /\ replaced /\ Len(olds) = Len(news)) => \A o \in SeqSet(ns[n].outs) : o = "" \/ o \notin UsedValues(A.G, A.N)>>,
       <<"step_replacement_reads_visible_values",
         (ok /\ replaced /\ Len(olds) = Len(news)) =>
            \A i \in 1..Len(inserted) : \A j \in 1..Len(inserted[i].ins) :
               inserted[i].ins[j] = "" \/ inserted[i].ins[j] \in VisAt(A.G, A.N, root, IndexOf(A.G[root].order, inserted[i].id))>>,
       <<"step_new_outputs_defined",
         (ok /\ replaced /\ Len(olds) = Len(news)) => \A j \in 1..Len(news) : news[j] \in VisAt(A.G, A.N, root, Len(A.G[root].order) + 1)>>,
       \* visit_attribute runs inside the node's own step: every default-domain node of its bodies is converted by then
       <<"step_bodies_are_converted_with_the_node",
         (ok /\ ~replaced) => \A k \in Nested(gs, ns, n) : (ns[k].domain = "" /\ k \notin erred) => Cur(k, dflt) = target>>>>
DoStep(n, root, t, replaced, inserted, olds, news, newVers) ==
  IF n \in gone THEN UNCHANGED <<gs, ns, napply, nfn, doms, ver, declared, gone, erred, nsteps>>
  ELSE IF ~replaced
  THEN /\ ver' = [k \in DOMAIN ver \cup {n} |-> IF k = n THEN t ELSE ver[k]]
       /\ nsteps' = nsteps + 1 /\ UNCHANGED <<gs, ns, napply, nfn, doms, declared, gone, erred>>
  ELSE LET A == AfterApply(root, n, {n}, inserted, olds, news, {})
           ids == InsIds(inserted)
       IN /\ gs' = A.G /\ ns' = A.N /\ gone' = gone \cup {n} /\ napply' = napply + 1
          /\ ver' = [k \in DOMAIN ver \cup SeqSet(ids) |->
                        IF k \in SeqSet(ids) THEN newVers[IndexOf(ids, k)] ELSE ver[k]]
          /\ doms' = doms \cup {inserted[i].domain : i \in 1..Len(inserted)}
          /\ nsteps' = nsteps + 1 /\ UNCHANGED <<nfn, declared, erred>>

ErrorClauses(n, root, f, dflt) ==
  <<<<"error_node_known", n \in DOMAIN ns /\ root \in DOMAIN gs>>,
    <<"error_at_the_current_version", f = Cur(n, dflt) \/ n \in erred>>,
    \* C10: a node whose adapter raised stays in its old form while the model will declare the target version
    <<"adapter_error_is_not_swallowed", FALSE>>>>
DoError(n) == /\ erred' = erred \cup {n} /\ UNCHANGED <<gs, ns, napply, nfn, doms, ver, declared, gone, nsteps>>

SetOpsetClauses(scope, v, target) ==
  <<<<"setopset_scope_is_main_graph_or_function", scope \in DOMAIN gs /\ gs[scope].kind \in {"main", "function"}>>,
    <<"setopset_declares_the_target", v = target>>>>
DoSetOpset(scope, v) == /\ declared' = [g \in DOMAIN declared \cup {scope} |-> IF g = scope THEN v ELSE declared[g]]
                        /\ UNCHANGED <<gs, ns, napply, nfn, doms, ver, gone, erred, nsteps>>

StartOKV(m) == Topological(GMap(m), NMap(m)) /\ OutputsDefined(GMap(m), NMap(m))

VEndClauses(m0, m, vs, fnOpsets, dflt, target) ==
  LET G == GMap(m) N == NMap(m)
      fv == VMap(vs)
      scopes == {g \in DOMAIN G : G[g].kind \in {"main", "function"}}
  IN <<<<"end_every_scope_declared", \A g \in scopes : g \in DOMAIN declared /\ declared[g] = target>>,
       <<"end_model_imports_the_target_version", \E i \in 1..Len(m.opsets) : m.opsets[i][1] = "" /\ m.opsets[i][2] = target>>,
       <<"end_functions_import_the_target_version", \A i \in 1..Len(fnOpsets) : fnOpsets[i][2] = target>>,
       <<"end_no_unknown_graph", \A g \in DOMAIN G : g \in DOMAIN gs>>,
       <<"end_graph_interfaces_are_what_the_steps_produce",
         \A g \in DOMAIN G : g \in DOMAIN gs => gs[g].inputs = G[g].inputs /\ gs[g].outputs = G[g].outputs>>,
       <<"end_node_lists_are_what_the_steps_produce", \A g \in DOMAIN G : g \in DOMAIN gs => gs[g].order = G[g].order>>,
       <<"end_initializers_are_what_the_steps_produce",
         \A g \in DOMAIN G : g \in DOMAIN gs => {p[2] : p \in gs[g].inits} = {p[2] : p \in G[g].inits}>>,
       <<"end_nodes_wired_as_the_steps_produce", \A n \in DOMAIN N : n \in DOMAIN ns /\ SameNode(ns[n], N[n])>>,
       <<"end_every_graph_topologically_ordered", Topological(G, N)>>,
       <<"end_graph_outputs_defined", OutputsDefined(G, N)>>,
       <<"end_main_interface_unchanged",
         m.main = m0.main /\ G[m.main].inputs = GMap(m0)[m0.main].inputs /\ Len(G[m.main].outputs) = Len(GMap(m0)[m0.main].outputs)>>,
       <<"end_versions_are_what_the_steps_produce", \A n \in DOMAIN N : n \in DOMAIN fv /\ n \in DOMAIN ver /\ fv[n] = ver[n]>>,
       <<"end_every_default_domain_node_at_the_target_version",
         \A n \in DOMAIN N : (N[n].domain = "" /\ n \notin erred) => (n \in DOMAIN fv /\ fv[n] = target)>>,
       <<"end_node_with_swallowed_error_below_declared_version", \A n \in DOMAIN N : n \in erred => FALSE>>>>
=============================================================================
