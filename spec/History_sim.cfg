\* implementation model (named deviations) on the catalogue RECORDED from the real code (IOEnv.C14_CAT)
SPECIFICATION Spec
CONSTANTS
  Deviations <- RealDevs
  MaxLen = 8
  Alphabet <- AllOps
  UseRecorded = TRUE
  EmitLen = 8
INVARIANT Emit
CHECK_DEADLOCK FALSE
