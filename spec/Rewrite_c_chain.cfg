SPECIFICATION Spec
CONSTANTS
  Deviations <- RealDevs
  RuleSets <- S_chain
  MaxDepth = 1
  Wide = FALSE
INVARIANT DeviationsExplain
INVARIANT Emit
CHECK_DEADLOCK FALSE
