SPECIFICATION Spec
CONSTANTS
  Deviations <- AllDevs
  Shapes <- ShapesQuick
  FullRanks <- FullQuick
INVARIANT SomeSuccess
CHECK_DEADLOCK FALSE
