SPECIFICATION Spec
CONSTANTS
  Deviations <- WhileBrkDevs
  MaxNodes = 6
  MinNodes = 4
  MaxDepth = 1
  MaxBlock = 4
  Kinds <- WhileBrkKinds
  Tiny = TRUE
  Ops = FALSE
  Rich = FALSE
CHECK_DEADLOCK FALSE
INVARIANT ImplFaithful
