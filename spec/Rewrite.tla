------------------------------- MODULE Rewrite -------------------------------
(* C07: applying rewrite rules replaces only the match and leaves a valid, equivalent graph.      *)
(*                                                                                              *)
(* A behaviour                                                                                   *)
(*   1. picks a rule set (Init), DERIVES a host model node by node (AddNode, OpenIf, NextBranch,  *)
(*      CloseIf, OpenLoop, CloseLoop, Finish) over the operator alphabet of that rule set - so    *)
(*      instances, overlapping instances, near misses and unrelated nodes appear at every         *)
(*      nesting level, in If/Loop bodies and (wrap) in a model-local function;                    *)
(*   2. runs the ENGINE of onnxscript/rewriter/_rewrite_rule.py step by step:                     *)
(*        Begin / NextFunction / EndApply      apply_to_model (main graph, then original functions)*)
(*        TryRule                              first applicable rule (variant) at the cursor node: *)
(*                                             match, get_replacement (TapeBuilder), opset update   *)
(*        RegisterInitializers                 new initializers (declined inside a function; the   *)
(*                                             name-clash branch)                                   *)
(*        ExtractFunction                      as_function: copy, new overload, opset subset        *)
(*        Splice                               replace_nodes_and_values (+ metadata merge, count)   *)
(*        Descend / Advance / Ascend           recursion into graph attributes; the linked-list     *)
(*                                             cursor over a list that is mutated while iterated    *)
(*        PostPasses                           remove_unused_nodes (a rule keeps nodes), NameFix    *)
(*        Cleanup                              the three clean-up passes of rewrite()               *)
(*   3. is judged: WF (spec/Graph.tla) after every Splice and after the passes, Eval preserved     *)
(*      after every Splice, signature, frame, progress, termination, names/imports at the end.     *)
(* Values are scalars holding small integers (exact semantics Eval).                              *)
(*                                                                                              *)
(* Deviations (DESIGN 2.5).  For rule sets that can reach one (DevProne) every host is run twice: *)
(* with devs = {} (the DESIGN, which must satisfy the property: PropertyHolds) and with           *)
(* devs = Deviations (the implementation model, emitted as the expected outcome; h.why records     *)
(* the deviations a behaviour needed; everything else still satisfies the property:                *)
(* DeviationsExplain).                                                                            *)
(*   init_clash_overwrite            a new initializer whose name is taken overwrites the entry;    *)
(*                                   the displaced value stays referenced (design: a free name)      *)
(*   multi_output_insertion_point    replacement nodes go after the node the match started from     *)
(*                                   even when a consumer of another matched output precedes it     *)
(*   as_function_nested_opsets       the extracted function gets the opset imports of the graph     *)
(*                                   the match lives in: a nested body has none (design: those of   *)
(*                                   the enclosing model graph / function)                          *)
(*   function_nested_import_missing  the replacement's domains are imported into the body and the   *)
(*                                   model graph, not into the enclosing function                   *)
(*   subgraph_name_clash             NameFixPass forgets the names of a body when it leaves it: a   *)
(*                                   later outer value keeps a name the body uses (ORT: not SSA)     *)
(*   var_binds_removed_intermediate  a pattern variable bound to an output of a matched node that    *)
(*                                   the match removes: Splice raises half way (design: no match)   *)
EXTENDS Integers, Sequences, FiniteSets, TLC, Json
G == INSTANCE Graph

CONSTANTS Deviations,     \* subset of AllDevs
          RuleSets,       \* set of records RS(...) below: rule list, host alphabet, bounds and host features
          MaxDepth,       \* nesting depth of If/Loop bodies
          Wide            \* TRUE: both operands of a binary node range over all candidates
VARIABLES phase, cfg, m, bs, eng, h
vars == <<phase, cfg, m, bs, eng, h>>

AllDevs == {"init_clash_overwrite", "multi_output_insertion_point", "as_function_nested_opsets",
            "var_binds_removed_intermediate", "function_nested_import_missing", "subgraph_name_clash"}

NC == -999                      \* "no constant value" / undefined
A == 1  B == 2  C == 3          \* main graph inputs a, b (scalars), c (BOOL as 0/1)
ONE == 4  TRIP == 5  CTRUE == 6  OLD == 7      \* candidate initializers: 1, trip count 2, true, 3
MAXCOUNT == 12                  \* more applications than this = the engine does not terminate

SeqSet(s) == {s[i] : i \in 1..Len(s)}
Last(s) == s[Len(s)]
Min(S) == CHOOSE x \in S : \A y \in S : x <= y
Max(S) == CHOOSE x \in S : \A y \in S : x >= y
RECURSIVE SortedSeq(_)
SortedSeq(S) == IF S = {} THEN <<>> ELSE LET x == Min(S) IN <<x>> \o SortedSeq(S \ {x})
IndexOf(s, x) == IF \E i \in 1..Len(s) : s[i] = x THEN Min({i \in 1..Len(s) : s[i] = x}) ELSE 0
Without(s, S) == SelectSeq(s, LAMBDA x : x \notin S)
InsertAfter(s, k, t) == SubSeq(s, 1, k) \o t \o SubSeq(s, k + 1, Len(s))     \* k = 0: in front

-----------------------------------------------------------------------------
(* the model: nodes (by node id), values (by value id), graphs (by graph id; 1 = main graph)       *)
V(name, k, g, p) == [name |-> name, k |-> k, g |-> g, p |-> p]      \* k: constant value; g: owning graph; p: producer node
N(op, dom, ins, out, subs, g, src) ==
   [op |-> op, dom |-> dom, ovl |-> "", ins |-> ins, out |-> out, subs |-> subs, g |-> g,
    out2 |-> 0,             \* second output (only the call node of the two-output as_function rule has one)
    nx |-> 0,               \* the stale `next` pointer of an erased node
    src |-> src, rule |-> "", orig |-> TRUE]
GR(kind, ins, owner, imports, fid) ==
   [kind |-> kind, ins |-> ins, outs |-> <<>>, order |-> <<>>, inits |-> <<>>, owner |-> owner,
    imports |-> imports, ctr |-> 0, known |-> {}, fid |-> fid]
NOFID == <<"", "", "">>

Outs(n) == IF n.out2 = 0 THEN <<n.out>> ELSE <<n.out, n.out2>>
Uses(mm, v) == {n \in 1..Len(mm.nodes) : \E i \in 1..Len(mm.nodes[n].ins) : mm.nodes[n].ins[i] = v}
IsGOut(mm, v) == \E g \in 1..Len(mm.graphs) : \E i \in 1..Len(mm.graphs[g].outs) : mm.graphs[g].outs[i] = v
InOrder(mm, n) == \E i \in 1..Len(mm.graphs[mm.nodes[n].g].order) : mm.graphs[mm.nodes[n].g].order[i] = n
Roots(mm) == <<1>> \o mm.funcs
\* the node of graph g that (transitively) contains node n, 0 if none
RECURSIVE AncIn(_, _, _)
AncIn(mm, n, g) == IF mm.nodes[n].g = g THEN n
                   ELSE LET o == mm.graphs[mm.nodes[n].g].owner IN IF o = 0 THEN 0 ELSE AncIn(mm, o, g)
\* root graph (main or function) of graph g
RECURSIVE RootOf(_, _)
RootOf(mm, g) == IF mm.graphs[g].owner = 0 THEN g ELSE RootOf(mm, mm.nodes[mm.graphs[g].owner].g)
\* all graphs reachable from graph g (g itself and nested bodies of nodes in its order)
RECURSIVE GraphsUnder(_, _)
GraphsUnder(mm, g) == {g} \cup UNION {UNION {GraphsUnder(mm, mm.nodes[n].subs[j]) : j \in 1..Len(mm.nodes[n].subs)} : n \in SeqSet(mm.graphs[g].order)}
LiveGraphs(mm) == UNION {GraphsUnder(mm, Roots(mm)[i]) : i \in 1..Len(Roots(mm))}
LiveNodes(mm) == UNION {SeqSet(mm.graphs[g].order) : g \in LiveGraphs(mm)}

-----------------------------------------------------------------------------
(* exact semantics *)
InputSeq == << <<-2, -1, 1>>, <<-2, -1, 0>>, <<-2, 5, 1>>, <<-2, 5, 0>>, <<3, -1, 1>>, <<3, -1, 0>>, <<3, 5, 1>>, <<3, 5, 0>> >>
FuncGraph(mm, n) == LET S == {g \in SeqSet(mm.funcs) : mm.graphs[g].fid = <<n.dom, n.op, n.ovl>>} IN IF S = {} THEN 0 ELSE Min(S)
RECURSIVE RunSeq(_, _, _, _), LoopRun(_, _, _, _, _), Exec1(_, _, _)
RunSeq(mm, ord, k, env) == IF k > Len(ord) THEN env ELSE RunSeq(mm, ord, k + 1, Exec1(mm, ord[k], env))
LoopRun(mm, n, env, i, v) ==
  LET b == mm.graphs[n.subs[1]] IN
  IF i >= env[n.ins[1]] THEN [env EXCEPT ![n.out] = v]
  ELSE LET e1 == [env EXCEPT ![b.ins[1]] = i, ![b.ins[2]] = 1, ![b.ins[3]] = v]
           e2 == RunSeq(mm, b.order, 1, e1)
       IN LoopRun(mm, n, e2, i + 1, e2[b.outs[2]])
Exec1(mm, nid, env) ==
  LET n == mm.nodes[nid]
      x(i) == env[n.ins[i]]
  IN CASE n.dom # "" -> LET f == FuncGraph(mm, n) IN
                        IF f = 0 THEN env
                        ELSE LET fg == mm.graphs[f]
                                 e1 == [v \in 1..Len(env) |-> IF \E i \in 1..Len(fg.ins) : fg.ins[i] = v
                                                             THEN env[n.ins[Max({i \in 1..Len(fg.ins) : fg.ins[i] = v})]] ELSE env[v]]
                                 e2 == RunSeq(mm, fg.order, 1, e1)
                             IN IF n.out2 = 0 THEN [e2 EXCEPT ![n.out] = e2[fg.outs[1]]]
                                ELSE [e2 EXCEPT ![n.out] = e2[fg.outs[1]], ![n.out2] = e2[fg.outs[2]]]
       [] n.op = "Neg" -> [env EXCEPT ![n.out] = -x(1)]
       [] n.op = "Relu" -> [env EXCEPT ![n.out] = IF x(1) > 0 THEN x(1) ELSE 0]
       [] n.op \in {"Identity", "IdentityB"} -> [env EXCEPT ![n.out] = x(1)]
       [] n.op \in {"Add", "Sum"} -> [env EXCEPT ![n.out] = x(1) + x(2)]
       [] n.op = "Sub" -> [env EXCEPT ![n.out] = x(1) - x(2)]
       [] n.op = "Mul" -> [env EXCEPT ![n.out] = x(1) * x(2)]
       [] n.op = "Dropout" -> IF n.out2 = 0 THEN [env EXCEPT ![n.out] = x(1)]              \* inference mode: y = x, mask = true
                              ELSE [env EXCEPT ![n.out] = x(1), ![n.out2] = 1]
       [] n.op = "Where" -> [env EXCEPT ![n.out] = IF x(1) = 1 THEN x(2) ELSE x(3)]
       [] n.op = "Max" -> [env EXCEPT ![n.out] = IF x(1) > x(2) THEN x(1) ELSE x(2)]
       [] n.op = "If" -> LET b == mm.graphs[IF x(1) = 1 THEN n.subs[1] ELSE n.subs[2]]
                             e2 == RunSeq(mm, b.order, 1, env)
                         IN [e2 EXCEPT ![n.out] = e2[b.outs[1]]]
       [] n.op = "Loop" -> LoopRun(mm, n, env, 0, x(3))
EvalModel(mm) ==
  [i \in 1..Len(InputSeq) |->
     LET env0 == [v \in 1..Len(mm.vals) |-> IF v \in {A, B, C} THEN InputSeq[i][v] ELSE mm.vals[v].k]
         env == RunSeq(mm, mm.graphs[1].order, 1, env0)
     IN [k \in 1..Len(mm.graphs[1].outs) |-> env[mm.graphs[1].outs[k]]]]

-----------------------------------------------------------------------------
(* well-formedness through the shared kernel spec/Graph.tla *)
NameOf(mm, v, byid) == IF v = 0 THEN "" ELSE IF byid THEN "v" \o ToString(v) ELSE mm.vals[v].name
RECURSIVE ToG(_, _, _)
ToG(mm, g, byid) ==
  LET gr == mm.graphs[g] IN
  [inputs |-> [i \in 1..Len(gr.ins) |-> NameOf(mm, gr.ins[i], byid)],
   inits |-> [i \in 1..Len(gr.inits) |-> NameOf(mm, gr.inits[i], byid)],
   nodes |-> [k \in 1..Len(gr.order) |->
                LET n == mm.nodes[gr.order[k]] IN
                [ins |-> [i \in 1..Len(n.ins) |-> NameOf(mm, n.ins[i], byid)], outs |-> [i \in 1..Len(Outs(n)) |-> NameOf(mm, Outs(n)[i], byid)],
                 subs |-> [j \in 1..Len(n.subs) |-> ToG(mm, n.subs[j], byid)], dom |-> n.dom]],
   outputs |-> [i \in 1..Len(gr.outs) |-> NameOf(mm, gr.outs[i], byid)]]
\* names: unique within a graph and distinct from every name of the graphs it is nested in (sibling bodies may reuse a
\* name).  The ONNX checker only looks at the names defined BEFORE the enclosing node; ONNX Runtime also rejects a body
\* name that an outer graph defines later ("graph must be in SSA form") when the body captures outer node outputs.
RECURSIVE ScopedSSA(_, _)
RECURSIVE NodeOutNames(_, _)
NodeOutNames(nodes, k) == IF k > Len(nodes) THEN <<>> ELSE nodes[k].outs \o NodeOutNames(nodes, k + 1)
OwnNames(gg) == gg.inputs \o gg.inits \o NodeOutNames(gg.nodes, 1)
ScopedSSA(gg, outer) == /\ G!NoDup(OwnNames(gg))
                        /\ G!SeqSet(OwnNames(gg)) \cap outer = {}
                        /\ \A k \in 1..Len(gg.nodes) : \A j \in 1..Len(gg.nodes[k].subs) :
                              ScopedSSA(gg.nodes[k].subs[j], outer \cup G!SeqSet(OwnNames(gg)))
\* every called function exists
CallsOK(mm) == \A n \in LiveNodes(mm) : mm.nodes[n].dom # "" => FuncGraph(mm, mm.nodes[n]) # 0
\* structure only (values by identity): def-before-use in every graph, scoping, outputs produced in their graph
WFids(mm) == /\ \A i \in 1..Len(Roots(mm)) : LET gg == ToG(mm, Roots(mm)[i], TRUE) IN G!Scoped(gg, {}) /\ G!OutputsOK(gg)
             /\ CallsOK(mm)
\* the serialised model: the same by NAME, plus scope-chain SSA, plus opset imports
WFscoped(mm) == \A i \in 1..Len(Roots(mm)) :
                  LET gg == ToG(mm, Roots(mm)[i], FALSE) IN
                  G!Scoped(gg, {}) /\ G!OutputsOK(gg) /\ G!ImportsOK(gg, mm.graphs[Roots(mm)[i]].imports)
WFssa(mm) == \A i \in 1..Len(Roots(mm)) : ScopedSSA(ToG(mm, Roots(mm)[i], FALSE), {})
WFnames(mm) == WFscoped(mm) /\ WFssa(mm)

-----------------------------------------------------------------------------
(* rules.  Patterns and replacements (r == p by construction, r not an instance of p):            *)
(*   negneg   Neg(Neg(x))        -> Identity(x)                                                   *)
(*   keep     Neg(Neg(x))        -> Identity(x)           remove_nodes = False                     *)
(*   relurelu Relu(Relu(x))      -> Relu(x)                                                        *)
(*   mul1     Mul(x, 1)          -> Identity(x)           (commute: Mul(1, x))                      *)
(*   subneg   Sub(x, y)          -> Add(x, Neg(y))        two new nodes, unnamed intermediate       *)
(*   addsum   Add(x, y)          -> Sum(y, x)                                                      *)
(*   dbl      Add(x, x)          -> Mul(x, INIT(2))       new initializer named <x>_two             *)
(*   fn       Add(Neg(x), y)     -> custom::NegAdd(x, y)  as_function (commute: Add(y, Neg(x)))     *)
(*   pair     (Sub(x,y), Add(x,y)) -> (Add(x, Neg(y)), Sum(y, x))   two output nodes                *)
(*   drop     Dropout(x)         -> Identity(x)           binds only the FIRST output: a host Dropout *)
(*                                                        whose mask is read elsewhere is not removable *)
(*   ext      Relu(x)            -> ext::MyRelu(x)        a domain the host does not import; MyRelu *)
(*                                                        is a model-local function of the host     *)
(*   dag      a=Neg(x); b=Relu(a); Add(a,b) -> custom::NegReluAdd(x)   as_function, DAG pattern with *)
(*   dagr     a=Neg(x); b=Relu(a); Add(b,a) -> custom::NegReluAdd(x)   a shared interior value       *)
(*   dagm     a=Neg(x); (Relu(a), Identity(a)) -> custom::NegDual(x)   as_function, two outputs      *)
Removes(r) == r # "keep"
AsFunction(r) == r \in {"fn", "dag", "dagr", "dagm"}
Commutable(r) == r \in {"mul1", "addsum", "dbl", "fn", "pair", "dag", "dagr"}     \* patterns holding one commutative node
Variants(r, commute) == IF commute /\ Commutable(r) THEN << <<r, FALSE>>, <<r, TRUE>> >> ELSE << <<r, FALSE>> >>
RECURSIVE RVFrom(_, _, _)
RVFrom(rules, k, commute) == IF k > Len(rules) THEN <<>> ELSE Variants(rules[k], commute) \o RVFrom(rules, k + 1, commute)
RV == RVFrom(cfg.rules, 1, cfg.commute)       \* RewriteRuleSet(rules, commute=...).rules

NoMatch == [ok |-> FALSE, nodes |-> <<>>, x |-> 0, y |-> 0, outs |-> <<>>]
Mt(nodes, x, y, outs) == [ok |-> TRUE, nodes |-> nodes, x |-> x, y |-> y, outs |-> outs]
\* _valid_to_replace for an intermediate value v of a match whose nodes are S
RemovableInter(mm, v, S) == ~IsGOut(mm, v) /\ Uses(mm, v) \subseteq S
\* producer of value v if it is a node of graph g with operator op (matches never cross graph boundaries)
InnerNode(mm, v, g, op) == LET p == mm.vals[v].p IN
                           IF p # 0 /\ mm.nodes[p].g = g /\ mm.nodes[p].op = op /\ mm.nodes[p].dom = "" /\ InOrder(mm, p) THEN p ELSE 0
\* _match_constant: a Python scalar in a pattern matches rank-0 constants only; "one1" is the constant 1 of shape [1]
IsConst1(mm, v) == mm.vals[v].k = 1 /\ v # CTRUE /\ mm.vals[v].name # "one1"
MatchV0(mm, nid, r, sw, devs) ==
  LET n == mm.nodes[nid]
      i1 == IF sw THEN 2 ELSE 1
      i2 == IF sw THEN 1 ELSE 2
  IN
  IF n.dom # "" THEN NoMatch
  ELSE CASE r \in {"negneg", "keep", "relurelu"} ->
              LET O == IF r = "relurelu" THEN "Relu" ELSE "Neg" IN
              IF n.op # O THEN NoMatch
              ELSE LET p == InnerNode(mm, n.ins[1], n.g, O) IN
                   IF p # 0 /\ (r = "keep" \/ RemovableInter(mm, n.ins[1], {nid}))
                   THEN Mt(<<nid, p>>, mm.nodes[p].ins[1], 0, <<n.out>>) ELSE NoMatch
         [] r = "mul1" -> IF n.op = "Mul" /\ IsConst1(mm, n.ins[i2]) THEN Mt(<<nid>>, n.ins[i1], 0, <<n.out>>) ELSE NoMatch
         [] r = "subneg" -> IF n.op = "Sub" THEN Mt(<<nid>>, n.ins[1], n.ins[2], <<n.out>>) ELSE NoMatch
         [] r = "addsum" -> IF n.op = "Add" THEN Mt(<<nid>>, n.ins[i1], n.ins[i2], <<n.out>>) ELSE NoMatch
         [] r = "dbl" -> IF n.op = "Add" /\ n.ins[1] = n.ins[2] THEN Mt(<<nid>>, n.ins[1], 0, <<n.out>>) ELSE NoMatch
         [] r = "fn" ->
              IF n.op # "Add" THEN NoMatch
              ELSE LET v == n.ins[i1]
                       p == InnerNode(mm, v, n.g, "Neg") IN
                   IF p # 0 /\ RemovableInter(mm, v, {nid})
                      \* a pattern variable bound to a value the match deletes: the design declines
                      /\ (n.ins[i2] # v \/ "var_binds_removed_intermediate" \in devs)
                   THEN Mt(<<nid, p>>, mm.nodes[p].ins[1], n.ins[i2], <<n.out>>) ELSE NoMatch
         [] r = "drop" -> IF n.op = "Dropout" THEN Mt(<<nid>>, n.ins[1], 0, <<n.out>>) ELSE NoMatch
         [] r = "ext" -> IF n.op = "Relu" THEN Mt(<<nid>>, n.ins[1], 0, <<n.out>>) ELSE NoMatch
         [] r \in {"dag", "dagr"} ->
              IF n.op # "Add" THEN NoMatch
              ELSE LET ia == IF (r = "dag") # sw THEN 1 ELSE 2          \* operand position of a
                       ib == 3 - ia
                       va == n.ins[ia]
                       vb == n.ins[ib]
                       pa == InnerNode(mm, va, n.g, "Neg")
                       pb == InnerNode(mm, vb, n.g, "Relu") IN
                   IF pa # 0 /\ pb # 0 /\ mm.nodes[pb].ins[1] = va
                      /\ RemovableInter(mm, va, {nid, pb}) /\ RemovableInter(mm, vb, {nid})
                   THEN Mt(IF ia = 1 THEN <<nid, pa, pb>> ELSE <<nid, pb, pa>>, mm.nodes[pa].ins[1], 0, <<n.out>>) ELSE NoMatch
         [] r = "dagm" ->
              IF n.op # "Relu" THEN NoMatch
              ELSE LET va == n.ins[1]
                       pa == InnerNode(mm, va, n.g, "Neg")
                       ord == mm.graphs[n.g].order
                       Q == {k \in 1..Len(ord) : LET q == mm.nodes[ord[k]] IN q.op = "Identity" /\ q.dom = "" /\ q.ins[1] = va} IN
                   IF pa = 0 \/ Q = {} THEN NoMatch
                   ELSE LET q == ord[Min(Q)] IN
                        IF RemovableInter(mm, va, {nid, q})
                        THEN Mt(<<nid, pa, q>>, mm.nodes[pa].ins[1], 0, <<n.out, mm.nodes[q].out>>) ELSE NoMatch
         [] r = "pair" ->
              IF n.op # "Sub" THEN NoMatch
              ELSE LET ord == mm.graphs[n.g].order
                       Q == {k \in 1..Len(ord) : LET q == mm.nodes[ord[k]] IN
                               q.op = "Add" /\ q.dom = "" /\ q.ins[i1] = n.ins[1] /\ q.ins[i2] = n.ins[2]} IN
                   IF Q = {} THEN NoMatch
                   ELSE LET q == ord[Min(Q)] IN Mt(<<nid, q>>, n.ins[1], n.ins[2], <<n.out, mm.nodes[q].out>>)
\* _valid_to_replace, declaratively: EVERY output of EVERY matched node is either an output of the pattern (taken over by
\* the replacement) or read by matched nodes only and not exported.  (The per-rule predicates above check the interior
\* values they know; this also covers outputs the pattern does not bind at all, e.g. the mask of a Dropout.)
RemovableMatch(mm, mt) == \A n \in SeqSet(mt.nodes) : \A o \in SeqSet(Outs(mm.nodes[n])) :
                             o \in SeqSet(mt.outs) \/ RemovableInter(mm, o, SeqSet(mt.nodes))
ExtraOutsOK(mm, mt) == \A n \in SeqSet(mt.nodes) : mm.nodes[n].out2 = 0 \/ mm.nodes[n].out2 \in SeqSet(mt.outs)
                                                    \/ RemovableInter(mm, mm.nodes[n].out2, SeqSet(mt.nodes))
MatchV(mm, nid, r, sw, devs) == LET mt == MatchV0(mm, nid, r, sw, devs) IN
                                IF mt.ok /\ Removes(r) /\ ~ExtraOutsOK(mm, mt) THEN NoMatch ELSE mt
\* does the variant need the deviation to match (reported as why)
NeedsVarDev(mm, nid, r, sw) == r = "fn" /\ MatchV(mm, nid, r, sw, AllDevs).ok /\ ~MatchV(mm, nid, r, sw, {}).ok

\* get_replacement: the TapeBuilder nodes (not yet in any graph: g = 0, values unnamed)
NewNode(op, dom, ins, out, rule) == [N(op, dom, ins, out, <<>>, 0, "") EXCEPT !.rule = rule, !.orig = FALSE]
MakeDelta(mm, r, mt) ==
  LET nn == Len(mm.nodes)
      nv == Len(mm.vals)
      U(k) == V("", NC, 0, nn + k)          \* k-th new node's output
      x == mt.x  y == mt.y
  IN CASE r \in {"negneg", "keep", "mul1"} ->
            [nodes |-> <<NewNode("Identity", "", <<x>>, nv + 1, r)>>, vals |-> <<U(1)>>, outs |-> <<nv + 1>>, inits |-> <<>>, doms |-> {""}]
       [] r = "relurelu" ->
            [nodes |-> <<NewNode("Relu", "", <<x>>, nv + 1, r)>>, vals |-> <<U(1)>>, outs |-> <<nv + 1>>, inits |-> <<>>, doms |-> {""}]
       [] r = "subneg" ->
            [nodes |-> <<NewNode("Neg", "", <<y>>, nv + 1, r), NewNode("Add", "", <<x, nv + 1>>, nv + 2, r)>>,
             vals |-> <<U(1), U(2)>>, outs |-> <<nv + 2>>, inits |-> <<>>, doms |-> {""}]
       [] r = "addsum" ->
            [nodes |-> <<NewNode("Sum", "", <<y, x>>, nv + 1, r)>>, vals |-> <<U(1)>>, outs |-> <<nv + 1>>, inits |-> <<>>, doms |-> {""}]
       [] r = "dbl" ->      \* value nv+1 is the initializer, nv+2 the Mul output
            [nodes |-> <<NewNode("Mul", "", <<x, nv + 1>>, nv + 2, r)>>,
             vals |-> <<V(mm.vals[x].name \o "_two", 2, 0, 0), V("", NC, 0, nn + 1)>>, outs |-> <<nv + 2>>, inits |-> <<nv + 1>>, doms |-> {""}]
       [] r = "fn" ->
            [nodes |-> <<NewNode("NegAdd", "custom", <<x, y>>, nv + 1, r)>>, vals |-> <<U(1)>>, outs |-> <<nv + 1>>, inits |-> <<>>, doms |-> {"custom"}]
       [] r = "drop" ->
            [nodes |-> <<NewNode("Identity", "", <<x>>, nv + 1, r)>>, vals |-> <<U(1)>>, outs |-> <<nv + 1>>, inits |-> <<>>, doms |-> {""}]
       [] r = "ext" ->
            [nodes |-> <<NewNode("MyRelu", "ext", <<x>>, nv + 1, r)>>, vals |-> <<U(1)>>, outs |-> <<nv + 1>>, inits |-> <<>>, doms |-> {"ext"}]
       [] r \in {"dag", "dagr"} ->
            [nodes |-> <<NewNode("NegReluAdd", "custom", <<x>>, nv + 1, r)>>, vals |-> <<U(1)>>, outs |-> <<nv + 1>>, inits |-> <<>>, doms |-> {"custom"}]
       [] r = "dagm" ->
            [nodes |-> <<[NewNode("NegDual", "custom", <<x>>, nv + 1, r) EXCEPT !.out2 = nv + 2]>>, vals |-> <<U(1), U(1)>>, outs |-> <<nv + 1, nv + 2>>,
             inits |-> <<>>, doms |-> {"custom"}]
       [] r = "pair" ->
            [nodes |-> <<NewNode("Neg", "", <<y>>, nv + 1, r), NewNode("Add", "", <<x, nv + 1>>, nv + 2, r), NewNode("Sum", "", <<y, x>>, nv + 3, r)>>,
             vals |-> <<U(1), U(2), U(3)>>, outs |-> <<nv + 2, nv + 3>>, inits |-> <<>>, doms |-> {""}]
\* _update_opset_imports(graph_or_function) and (model.graph): a domain not imported yet is imported with version 1
SortedDoms(doms, imps) == SelectSeq(<<"", "custom", "ext">>, LAMBDA d : d \in doms /\ \A i \in 1..Len(imps) : imps[i][1] # d)
AddImports(imps, doms) == imps \o [i \in 1..Len(SortedDoms(doms, imps)) |-> <<SortedDoms(doms, imps)[i], 1>>]

-----------------------------------------------------------------------------
(* graph surgery *)
\* erase node n from its graph (safe=True detaches its inputs); the erased box keeps its `next` pointer
Erase(mm, n) ==
  LET g == mm.nodes[n].g
      ord == mm.graphs[g].order
      k == IndexOf(ord, n)
  IN [mm EXCEPT !.nodes[n].ins = <<>>,
                !.nodes[n].nx = IF k < Len(ord) THEN ord[k + 1] ELSE 0,
                !.graphs[g].order = Without(ord, {n})]
RECURSIVE EraseAll(_, _, _)
EraseAll(mm, ns, k) == IF k > Len(ns) THEN mm ELSE EraseAll(Erase(mm, ns[k]), ns, k + 1)
\* the linked-list iterator: an alive node's successor, else follow the stale pointers
RECURSIVE NextAlive(_, _)
NextAlive(mm, n) == IF n = 0 \/ InOrder(mm, n) THEN n ELSE NextAlive(mm, mm.nodes[n].nx)
NextOf(mm, n) == IF InOrder(mm, n)
                 THEN LET ord == mm.graphs[mm.nodes[n].g].order  k == IndexOf(ord, n) IN IF k < Len(ord) THEN ord[k + 1] ELSE 0
                 ELSE NextAlive(mm, mm.nodes[n].nx)
\* NameAuthority.register_or_name_value for the outputs of nodes ns entering graph g
RECURSIVE FreshCtr(_, _)
FreshCtr(known, c) == IF ("val_" \o ToString(c)) \in known THEN FreshCtr(known, c + 1) ELSE c
RECURSIVE NameNew(_, _, _, _)
NameNew(mm, g, ns, k) ==
  IF k > Len(ns) THEN mm
  ELSE LET v == mm.nodes[ns[k]].out
           gr == mm.graphs[g] IN
       IF mm.vals[v].name # ""
       THEN NameNew([mm EXCEPT !.graphs[g].known = @ \cup {mm.vals[v].name}, !.vals[v].g = g, !.nodes[ns[k]].g = g], g, ns, k + 1)
       ELSE LET c == FreshCtr(gr.known, gr.ctr)
                nm == "val_" \o ToString(c) IN
            NameNew([mm EXCEPT !.graphs[g].known = @ \cup {nm}, !.graphs[g].ctr = c + 1,
                               !.vals[v].name = nm, !.vals[v].g = g, !.nodes[ns[k]].g = g], g, ns, k + 1)
\* Value.replace_all_uses_with(replace_graph_outputs=True) for the pairs olds[i] -> news[i]
Subst(s, olds, news) == [i \in 1..Len(s) |-> IF \E j \in 1..Len(olds) : olds[j] = s[i]
                                            THEN news[Min({j \in 1..Len(olds) : olds[j] = s[i]})] ELSE s[i]]
Redirect(mm, olds, news) ==
  [mm EXCEPT !.nodes = [n \in 1..Len(@) |-> [@[n] EXCEPT !.ins = Subst(@, olds, news)]],
             !.graphs = [g \in 1..Len(@) |-> [@[g] EXCEPT !.outs = Subst(@, olds, news)]]]
\* where the replacement nodes go: the code inserts after the node the match started from.  With two output
\* nodes a consumer of the other output may precede that node; the design then inserts in front of the first
\* consumer (all variables of the generated two-output pattern are shared by both output nodes).
FirstConsumerPos(mm, g, mt) ==
  LET ord == mm.graphs[g].order
      users == UNION {Uses(mm, mt.outs[i]) : i \in 1..Len(mt.outs)} \ SeqSet(mt.nodes)
      pos == {IndexOf(ord, AncIn(mm, u, g)) : u \in {u \in users : AncIn(mm, u, g) # 0}} \ {0}
  IN IF pos = {} THEN Len(ord) + 1 ELSE Min(pos)
InsertionIndex(mm, g, root, mt, devs) ==
  LET rp == IndexOf(mm.graphs[g].order, root)
      fc == FirstConsumerPos(mm, g, mt) IN
  IF fc < rp /\ "multi_output_insertion_point" \notin devs THEN fc - 1 ELSE rp
\* _check_node_safe_to_remove
SafeToRemove(mm, ns) == \A n \in SeqSet(ns) : Uses(mm, mm.nodes[n].out) \subseteq SeqSet(ns) /\ ~IsGOut(mm, mm.nodes[n].out)
RECURSIVE JoinTags(_, _, _)
JoinTags(base, tags, k) == IF k > Len(tags) THEN base ELSE JoinTags(base \o ", " \o tags[k], tags, k + 1)
\* convenience.replace_nodes_and_values, then metadata_merger.copy_merged_metadata
SpliceModel(mm, g, root, p, devs) ==
  LET olds == p.mt.outs
      news == p.outs
      m1 == [mm EXCEPT !.vals = [v \in 1..Len(@) |-> IF \E i \in 1..Len(news) : news[i] = v
                                                    THEN [@[v] EXCEPT !.name = mm.vals[olds[Min({i \in 1..Len(news) : news[i] = v})]].name]
                                                    ELSE @[v]]]
      m2 == Redirect(m1, olds, news)
      at == InsertionIndex(mm, g, root, p.mt, devs)
      m3a == NameNew([m2 EXCEPT !.graphs[g].order = InsertAfter(@, at, p.newn)], g, p.newn, 1)
      second == {m3a.nodes[n].out2 : n \in SeqSet(p.newn)} \ {0}
      m3 == [m3a EXCEPT !.graphs[g].known = @ \cup {m3a.vals[v].name : v \in second},
                        !.vals = [v \in 1..Len(@) |-> IF v \in second THEN [@[v] EXCEPT !.g = g] ELSE @[v]]]
      \* every new node is tagged with the rule name; then the metadata of the matched nodes is merged in: keys
      \* the new node lacks are taken from the first matched node that has them (src), rule tags are joined
      rootsrc == mm.nodes[p.mt.nodes[1]].src
      tags == SelectSeq([k \in 1..Len(p.mt.nodes) |-> mm.nodes[p.mt.nodes[k]].rule], LAMBDA t : t # "")
      tag == JoinTags(p.r, tags, 1)
      m4 == [m3 EXCEPT !.nodes = [n \in 1..Len(@) |-> IF n \in SeqSet(p.newn) THEN [@[n] EXCEPT !.src = rootsrc, !.rule = tag] ELSE @[n]]]
  IN m4
\* _copy_for_function: inputs are copies of the call node's inputs (a value passed twice maps to its LAST copy)
ExtractFn(mm, g, p, devs) ==
  LET call == p.newn[1]
      cin == mm.nodes[call].ins
      dom == mm.nodes[call].dom
      nm == mm.nodes[call].op
      taken == {mm.graphs[f].fid[3] : f \in {f \in SeqSet(mm.funcs) : mm.graphs[f].fid[1] = dom /\ mm.graphs[f].fid[2] = nm}}
      ovl == ToString(Min({k \in 1..(Cardinality(taken) + 1) : ToString(k) \notin taken}))
      fgid == Len(mm.graphs) + 1
      orig == SelectSeq(mm.graphs[g].order, LAMBDA n : n \in SeqSet(p.mt.nodes))      \* matched nodes in graph order
      nv == Len(mm.vals)
      nn == Len(mm.nodes)
      finv == [i \in 1..Len(cin) |-> V(mm.vals[cin[i]].name, NC, fgid, 0)]           \* ids nv+1 .. nv+Len(cin)
      MapIn(v) == nv + Max({i \in 1..Len(cin) : cin[i] = v})
      OutId(k) == nv + Len(cin) + k                                                    \* output of the k-th copied node
      MapV(v) == IF \E i \in 1..Len(cin) : cin[i] = v THEN MapIn(v)
                 ELSE IF \E k \in 1..Len(orig) : mm.nodes[orig[k]].out = v THEN OutId(Min({k \in 1..Len(orig) : mm.nodes[orig[k]].out = v}))
                 ELSE 0
      copies == [k \in 1..Len(orig) |->
                   LET o == mm.nodes[orig[k]] IN
                   [N(o.op, o.dom, [i \in 1..Len(o.ins) |-> MapV(o.ins[i])], OutId(k), <<>>, fgid, o.src) EXCEPT !.orig = FALSE]]
      outv == [k \in 1..Len(orig) |-> V(mm.vals[mm.nodes[orig[k]].out].name, NC, fgid, nn + k)]
      \* opset imports of the new function: those of the graph the match lives in, restricted to the used domains.
      \* A nested body has no imports of its own (or only what earlier rewrites recorded there with version 1); the
      \* design takes them from the enclosing model graph / function.
      src == IF "as_function_nested_opsets" \in devs THEN mm.graphs[g].imports ELSE mm.graphs[RootOf(mm, g)].imports
      used == {mm.nodes[orig[k]].dom : k \in 1..Len(orig)}
      imps == SelectSeq(src, LAMBDA e : e[1] \in used)
      fg == [GR("func", [i \in 1..Len(cin) |-> nv + i], 0, imps, <<dom, nm, ovl>>)
               EXCEPT !.outs = [i \in 1..Len(p.mt.outs) |-> MapV(p.mt.outs[i])],
                      !.order = [k \in 1..Len(orig) |-> nn + k],
                      !.known = {finv[i].name : i \in 1..Len(finv)} \cup {outv[k].name : k \in 1..Len(outv)}]
  IN [mm EXCEPT !.vals = @ \o finv \o outv, !.nodes = [@ EXCEPT ![call].ovl = ovl] \o copies,
                !.graphs = Append(@, fg), !.funcs = Append(@, fgid)]

-----------------------------------------------------------------------------
(* passes *)
\* _remove_unused_nodes_in_graph_like: reverse order; a kept node's bodies are visited
RECURSIVE DCEGraph(_, _, _, _)
DCEGraph(mm, g, ord, k) ==
  IF k = 0 THEN mm
  ELSE LET n == ord[k]
           nd == mm.nodes[n] IN
       IF \A o \in SeqSet(Outs(nd)) : Uses(mm, o) = {} /\ o \notin SeqSet(mm.graphs[g].outs)
       THEN DCEGraph(Erase(mm, n), g, ord, k - 1)
       ELSE LET m1 == IF Len(nd.subs) >= 1 THEN DCEGraph(mm, nd.subs[1], mm.graphs[nd.subs[1]].order, Len(mm.graphs[nd.subs[1]].order)) ELSE mm
                m2 == IF Len(nd.subs) >= 2 THEN DCEGraph(m1, nd.subs[2], m1.graphs[nd.subs[2]].order, Len(m1.graphs[nd.subs[2]].order)) ELSE m1
                \* _remove_unused_optional_outputs (only where the graph itself imports the default domain): an unused mask goes
                m3 == IF nd.op = "Dropout" /\ nd.out2 # 0 /\ Uses(mm, nd.out2) = {} /\ nd.out2 \notin SeqSet(mm.graphs[g].outs)
                         /\ \E i \in 1..Len(mm.graphs[g].imports) : mm.graphs[g].imports[i][1] = ""
                      THEN [m2 EXCEPT !.nodes[n].out2 = 0] ELSE m2
            IN DCEGraph(m3, g, ord, k - 1)
RECURSIVE DCEFuncs(_, _)
DCEFuncs(mm, k) == IF k > Len(mm.funcs) THEN mm
                   ELSE LET f == mm.funcs[k] IN DCEFuncs(DCEGraph(mm, f, mm.graphs[f].order, Len(mm.graphs[f].order)), k + 1)
DCE(mm) ==       \* RemoveUnusedNodesPass: main graph, unused initializers of the main graph, functions
  LET m1 == DCEGraph(mm, 1, mm.graphs[1].order, Len(mm.graphs[1].order))
      m2 == [m1 EXCEPT !.graphs[1].inits = SelectSeq(@, LAMBDA v : Uses(m1, v) # {} \/ v \in SeqSet(m1.graphs[1].outs) \/ v \in SeqSet(m1.graphs[1].ins))]
  IN DCEFuncs(m2, 1)
\* RemoveUnusedFunctionsPass: functions reachable from the main graph
RECURSIVE ReachF(_, _)
NodesUnder(mm, r) == UNION {SeqSet(mm.graphs[g].order) : g \in GraphsUnder(mm, r)}
ReachF(mm, S) == LET callers == UNION {NodesUnder(mm, r) : r \in S \cup {1}}
                     T == (S \cup {FuncGraph(mm, mm.nodes[n]) : n \in {n \in callers : mm.nodes[n].dom # ""}}) \ {0, 1}
                 IN IF T = S THEN S ELSE ReachF(mm, T)
RemoveUnusedFunctions(mm) == [mm EXCEPT !.funcs = SelectSeq(@, LAMBDA f : f \in ReachF(mm, {}))]
\* RemoveUnusedOpsetsPass
DomainsUnder(mm, r) == {mm.nodes[n].dom : n \in NodesUnder(mm, r)}
RemoveUnusedOpsets(mm) ==
  LET fd == {mm.graphs[f].fid[1] : f \in SeqSet(mm.funcs)} IN
  [mm EXCEPT !.graphs = [g \in 1..Len(@) |->
        IF g = 1 THEN [@[g] EXCEPT !.imports = SelectSeq(@, LAMBDA e : e[1] \in {""} \cup fd \cup DomainsUnder(mm, 1))]
        ELSE IF g \in SeqSet(mm.funcs) THEN [@[g] EXCEPT !.imports = SelectSeq(@, LAMBDA e : e[1] \in {""} \cup DomainsUnder(mm, g))]
        ELSE @[g]]]
\* NameFixPass._fix_graph_names.  st = [names (by value id), used, seen, ctr (set of <<base, count>>)]
CtrOf(ctr, b) == LET S == {e[2] : e \in {e \in ctr : e[1] = b}} IN IF S = {} THEN 0 ELSE Max(S)
RECURSIVE UniqueFrom(_, _, _)
UniqueFrom(b, used, c) == IF (b \o "_" \o ToString(c)) \in used THEN UniqueFrom(b, used, c + 1) ELSE c
NFValue(st, v) ==
  IF v = 0 \/ v \in st.seen THEN st
  ELSE LET nm == st.names[v] IN
       IF nm \notin st.used THEN [st EXCEPT !.used = @ \cup {nm}, !.seen = @ \cup {v}]
       ELSE LET c == UniqueFrom(nm, st.used, CtrOf(st.ctr, nm) + 1)
                nn == nm \o "_" \o ToString(c) IN
            [st EXCEPT !.names[v] = nn, !.used = @ \cup {nn}, !.seen = @ \cup {v}, !.ctr = @ \cup {<<nm, c>>}]
RECURSIVE NFValues(_, _, _)
NFValues(st, vs, k) == IF k > Len(vs) THEN st ELSE NFValues(NFValue(st, vs[k]), vs, k + 1)
RECURSIVE NFGraph(_, _, _, _), NFNodes(_, _, _, _, _), NFSubs(_, _, _, _, _)
\* a body starts from a COPY of the names used so far.  The code forgets the body's own names on exit, so a value the
\* enclosing graph defines LATER may keep a name that a body already uses (deviation subgraph_name_clash, the same
\* mechanism as C10's); the design keeps them reserved.  Sibling bodies are kept apart by the shared counters only.
NFSubs(mm, st, subs, k, devs) ==
  IF k > Len(subs) THEN st
  ELSE LET inner == NFGraph(mm, st, subs[k], devs) IN
       NFSubs(mm, IF "subgraph_name_clash" \in devs THEN [inner EXCEPT !.used = st.used] ELSE inner, subs, k + 1, devs)
NFNodes(mm, st, ord, k, devs) ==
  IF k > Len(ord) THEN st
  ELSE LET n == mm.nodes[ord[k]]
           s1 == NFValues(NFValues(st, n.ins, 1), Outs(n), 1)
       IN NFNodes(mm, NFSubs(mm, s1, n.subs, 1, devs), ord, k + 1, devs)
NFGraph(mm, st, g, devs) ==
  LET gr == mm.graphs[g]
      s1 == NFValues(st, gr.ins \o gr.outs \o (IF gr.kind = "func" THEN <<>> ELSE gr.inits), 1)
  IN NFNodes(mm, s1, gr.order, 1, devs)
RECURSIVE NameFixRoots(_, _, _, _)
NameFixRoots(mm, names, k, devs) ==
  IF k > Len(Roots(mm)) THEN names
  ELSE NameFixRoots(mm, NFGraph(mm, [names |-> names, used |-> {}, seen |-> {}, ctr |-> {}], Roots(mm)[k], devs).names, k + 1, devs)
NameFix(mm, devs) == LET names == NameFixRoots(mm, [v \in 1..Len(mm.vals) |-> mm.vals[v].name], 1, devs) IN
                     [mm EXCEPT !.vals = [v \in 1..Len(@) |-> [@[v] EXCEPT !.name = names[v]]]]

-----------------------------------------------------------------------------
(* 1. derivation of the host model *)
IA == h.ia   IB == h.ib   IC == h.ic   ROOT == h.root
Top == Last(bs.st)
IsBoolNode(n) == n.op = "IdentityB"
FloatOuts(mm, g) == SelectSeq(mm.graphs[g].order, LAMBDA n : ~IsBoolNode(mm.nodes[n]))
LastOuts(mm, g, k) == LET o == FloatOuts(mm, g) IN IF Len(o) >= k THEN {mm.nodes[o[Len(o) - k + 1]].out} ELSE {}
\* values a new node of the open graph may read: its last two values, the value in front of the enclosing If/Loop
\* (captured outer value), the carried loop value, the inputs a and b
Cands ==
  LET g == Top.g
      outer == IF Len(bs.st) >= 2
               THEN LET pg == bs.st[Len(bs.st) - 1].g
                        o == FloatOuts(m, pg) IN
                    IF Len(o) >= 2 THEN {m.nodes[o[Len(o) - 1]].out} ELSE {}
               ELSE {}
      carried == IF Top.kind = "loop" THEN {m.graphs[g].ins[3]} ELSE {}
  IN LastOuts(m, g, 1) \cup LastOuts(m, g, 2) \cup outer \cup carried \cup {IA, IB}
CandsU == Cands \ {IB}
Primary == LET g == Top.g IN IF LastOuts(m, g, 1) # {} THEN LastOuts(m, g, 1) ELSE {IA}
Unary == {"Neg", "Relu", "Identity", "Mul1", "Mul1c", "Mul1v", "Mul1vc", "Mul3", "I_negneg", "I_dag", "I_dagr", "I_dagm", "I_dagms", "Drop", "I_drop2", "I_dropm"}
\* host-building steps.  Besides single nodes there are INSTANCE steps (a whole instance of a pattern, C06 style):
\*   I_negneg(x) = Neg(Neg(x))      I_fn(x,y) = Add(Neg(x), y)      I_fnc(x,y) = Add(y, Neg(x))
\*   I_dag(x) = n=Neg(x); r=Relu(n); Add(n,r)    I_dagr: Add(r,n)    I_dagm(x) = n=Neg(x); Relu(n); Identity(n)
\*   I_dagms / I_pairs: as I_dagm / I_pair with an unmatched consumer of the FIRST output node between the two output nodes
\*   Drop(x) = Dropout(x)   I_drop2(x) = (y, mask) = Dropout(x)   I_dropm(x) = (y, mask) = Dropout(x); Where(mask, y, x)
\*   I_pair(x,y) = Sub(x,y); Add(x,y)    I_pairr(x,y) = Add(x,y); Sub(x,y)    I_pairc(x,y) = Add(x,y); Relu(that); Sub(x,y)
ArgChoices(op) ==
  IF op \in Unary THEN {<<x>> : x \in CandsU}
  ELSE IF op \in {"I_fn", "I_fnc"} THEN {<<x, y>> : x \in Primary \cup {IA}, y \in {IB} \cup LastOuts(m, Top.g, 1) \cup (Cands \ {IA, IB})}
  ELSE IF op = "SubP" THEN {<<x, y>> : x \in Primary, y \in Cands \ Primary}           \* Sub(latest value, other)
  ELSE IF op \in {"I_pair", "I_pairr", "I_pairc", "I_pairs"} THEN {<<x, y>> \in (Primary \cup {IA}) \X ({IB} \cup Primary) : x # y}
  ELSE IF Wide THEN {<<x, y>> : x \in Cands, y \in Cands}
  ELSE {<<x, y>> : x \in Primary, y \in Cands} \cup {<<x, y>> : x \in Cands, y \in Primary} \cup {<<IA, IB>>, <<IB, IA>>, <<IA, IA>>}
Steps(op, a, v1) ==          \* v1: the id the first new value will get
  CASE op = "Mul1" -> << <<"Mul", <<a[1], ONE>>>> >>
    [] op = "Mul1c" -> << <<"Mul", <<ONE, a[1]>>>> >>
    [] op = "Mul1v" -> << <<"Mul", <<a[1], ONE>>>> >>          \* hosts of the Mul1v family: ONE is the rank-1 constant "one1" (near miss of x * 1)
    [] op = "Mul1vc" -> << <<"Mul", <<ONE, a[1]>>>> >>
    [] op = "Mul3" -> << <<"Mul", <<a[1], OLD>>>> >>
    [] op = "SubP" -> << <<"Sub", a>> >>
    [] op = "I_negneg" -> << <<"Neg", <<a[1]>>>>, <<"Neg", <<v1>>>> >>
    [] op = "I_fn" -> << <<"Neg", <<a[1]>>>>, <<"Add", <<v1, a[2]>>>> >>
    [] op = "I_fnc" -> << <<"Neg", <<a[1]>>>>, <<"Add", <<a[2], v1>>>> >>
    [] op = "I_dag" -> << <<"Neg", <<a[1]>>>>, <<"Relu", <<v1>>>>, <<"Add", <<v1, v1 + 1>>>> >>
    [] op = "I_dagr" -> << <<"Neg", <<a[1]>>>>, <<"Relu", <<v1>>>>, <<"Add", <<v1 + 1, v1>>>> >>
    [] op = "I_dagm" -> << <<"Neg", <<a[1]>>>>, <<"Relu", <<v1>>>>, <<"Identity", <<v1>>>> >>
    [] op = "I_dagms" -> << <<"Neg", <<a[1]>>>>, <<"Relu", <<v1>>>>, <<"Relu", <<v1 + 1>>>>, <<"Identity", <<v1>>>> >>
    [] op = "Drop" -> << <<"Dropout", <<a[1]>>>> >>
    [] op = "I_drop2" -> << <<"Dropout", <<a[1]>>, 2>> >>                                            \* mask produced, nobody reads it
    [] op = "I_dropm" -> << <<"Dropout", <<a[1]>>, 2>>, <<"Where", <<v1 + 1, v1, a[1]>>>> >>      \* mask read by an unmatched node
    [] op = "I_pairs" -> << <<"Sub", a>>, <<"Relu", <<v1>>>>, <<"Add", a>> >>
    [] op = "I_pair" -> << <<"Sub", a>>, <<"Add", a>> >>
    [] op = "I_pairr" -> << <<"Add", a>>, <<"Sub", a>> >>
    [] op = "I_pairc" -> << <<"Add", a>>, <<"Relu", <<v1>>>>, <<"Sub", a>> >>
    [] OTHER -> << <<op, a>> >>
PlainCount == bs.np
Depth == Len(bs.st) - 1

AppendNode(mm, g, op, dom, ins, nm) ==
  LET nid == Len(mm.nodes) + 1
      vid == Len(mm.vals) + 1 IN
  [mm EXCEPT !.nodes = Append(@, N(op, dom, ins, vid, <<>>, g, nm)),
             !.vals = Append(@, V(nm, NC, g, nid)),
             !.graphs[g].order = Append(@, nid)]
RECURSIVE AppendSteps(_, _, _, _)
AppendSteps(mm, g, steps, k) ==
  IF k > Len(steps) THEN mm
  ELSE LET nid == Len(mm.nodes) + 1
           \* shadow: the first node of the root graph is called like a name the IR generates
           nm == IF cfg.shadow /\ g = ROOT /\ mm.graphs[g].order = <<>> THEN "val_0" ELSE "n" \o ToString(nid)
           m1 == AppendNode(mm, g, steps[k][1], "", steps[k][2], nm)
           \* a step <<op, ins, 2>> makes a node with a second (BOOL) output
           m2 == IF Len(steps[k]) = 3 THEN [m1 EXCEPT !.nodes[nid].out2 = Len(m1.vals) + 1, !.vals = Append(@, V(nm \o "_mask", NC, g, nid))] ELSE m1
       IN AppendSteps(m2, g, steps, k + 1)
AddNode(op, args) ==
  /\ phase = "build" /\ PlainCount < cfg.n
  /\ m' = AppendSteps(m, Top.g, Steps(op, args, Len(m.vals) + 1), 1)
  /\ bs' = [bs EXCEPT !.np = @ + 1]
  /\ UNCHANGED <<phase, cfg, eng, h>>
OpenIf ==
  /\ phase = "build" /\ cfg.ifs /\ Depth < MaxDepth /\ Depth < cfg.d /\ PlainCount + 2 <= cfg.n
  /\ LET g == Top.g
         nid == Len(m.nodes) + 1
         tg == Len(m.graphs) + 1
         m1 == AppendNode(m, g, "If", "", <<IC>>, "n" \o ToString(nid))
     IN /\ m' = [m1 EXCEPT !.nodes[nid].subs = <<tg>>, !.graphs = Append(@, GR("then", <<>>, nid, <<>>, NOFID))]
        /\ bs' = [bs EXCEPT !.st = Append(@, [g |-> tg, kind |-> "then", node |-> nid])]
  /\ UNCHANGED <<phase, cfg, eng, h>>
NextBranch ==
  /\ phase = "build" /\ Top.kind = "then" /\ m.graphs[Top.g].order # <<>> /\ PlainCount < cfg.n
  /\ LET eg == Len(m.graphs) + 1
         lastv == m.nodes[Last(m.graphs[Top.g].order)].out IN
     /\ m' = [m EXCEPT !.graphs = Append([@ EXCEPT ![Top.g].outs = <<lastv>>], GR("else", <<>>, Top.node, <<>>, NOFID)),
                       !.nodes[Top.node].subs = Append(@, eg)]
     /\ bs' = [bs EXCEPT !.st = Append(SubSeq(@, 1, Len(@) - 1), [g |-> eg, kind |-> "else", node |-> Top.node])]
  /\ UNCHANGED <<phase, cfg, eng, h>>
CloseIf ==
  /\ phase = "build" /\ Top.kind = "else" /\ m.graphs[Top.g].order # <<>>
  /\ m' = [m EXCEPT !.graphs[Top.g].outs = <<m.nodes[Last(m.graphs[Top.g].order)].out>>]
  /\ bs' = [bs EXCEPT !.st = SubSeq(@, 1, Len(@) - 1)]
  /\ UNCHANGED <<phase, cfg, eng, h>>
OpenLoop(v0) ==
  /\ phase = "build" /\ cfg.loops /\ ~cfg.wrap /\ Depth < MaxDepth /\ Depth < cfg.d /\ PlainCount + 1 <= cfg.n      \* (initializers cannot live in a function)
  /\ LET g == Top.g
         nid == Len(m.nodes) + 1
         lg == Len(m.graphs) + 1
         m1 == AppendNode(m, g, "Loop", "", <<TRIP, CTRUE, v0>>, "n" \o ToString(nid))       \* node nid, value nv+1
         nv == Len(m1.vals)
         sfx == ToString(nid)
         m2 == [m1 EXCEPT !.vals = @ \o <<V("it" \o sfx, NC, lg, 0), V("cin" \o sfx, NC, lg, 0), V("vin" \o sfx, NC, lg, 0)>>,
                          !.nodes[nid].subs = <<lg>>,
                          !.graphs = Append(@, GR("loop", <<nv + 1, nv + 2, nv + 3>>, nid, <<>>, NOFID))]
         m3 == AppendNode(m2, lg, "IdentityB", "", <<nv + 2>>, "cout" \o sfx)
     IN /\ m' = m3
        /\ bs' = [bs EXCEPT !.st = Append(@, [g |-> lg, kind |-> "loop", node |-> nid])]
  /\ UNCHANGED <<phase, cfg, eng, h>>
CloseLoop ==
  /\ phase = "build" /\ Top.kind = "loop" /\ Len(m.graphs[Top.g].order) >= 2
  /\ m' = [m EXCEPT !.graphs[Top.g].outs = <<m.nodes[m.graphs[Top.g].order[1]].out, m.nodes[Last(m.graphs[Top.g].order)].out>>]
  /\ bs' = [bs EXCEPT !.st = SubSeq(@, 1, Len(@) - 1)]
  /\ UNCHANGED <<phase, cfg, eng, h>>

\* names a deserialised graph registers with its NameAuthority
KnownNames(mm, g) == {mm.vals[v].name : v \in SeqSet(mm.graphs[g].ins) \cup SeqSet(mm.graphs[g].inits) \cup UNION {SeqSet(Outs(mm.nodes[n])) : n \in SeqSet(mm.graphs[g].order)}}
\* is there a (node, rule variant) the DESIGN would rewrite
Applicable(mm, n, r, sw) == MatchV(mm, n, r, sw, {}).ok /\ ~(r = "dbl" /\ mm.graphs[mm.nodes[n].g].kind = "func")
AnyMatch(mm) == \E n \in LiveNodes(mm) : \E i \in 1..Len(RV) : Applicable(mm, n, RV[i][1], RV[i][2])
Finish ==
  /\ phase = "build" /\ Depth = 0 /\ m.graphs[ROOT].order # <<>>
  /\ \E extra \in {0} \cup (IF cfg.xouts THEN {m.nodes[n].out : n \in {n \in SeqSet(m.graphs[ROOT].order) : Uses(m, m.nodes[n].out) # {}}} ELSE {}) :
     LET \* graph outputs: every root-level value nobody reads, plus (xouts) possibly one that is also read
         outs == SelectSeq([k \in 1..Len(m.graphs[ROOT].order) |-> m.nodes[m.graphs[ROOT].order[k]].out], LAMBDA v : Uses(m, v) = {} \/ v = extra)
         inits == SelectSeq(<<ONE, TRIP, CTRUE, OLD>>, LAMBDA v : Uses(m, v) # {})
         m1 == [m EXCEPT !.graphs[ROOT].outs = outs, !.graphs[1].inits = inits]
         m2 == [m1 EXCEPT !.graphs = [g \in 1..Len(@) |-> [@[g] EXCEPT !.known = KnownNames(m1, g)]]]
     IN /\ cfg.wrap => Len(outs) = 1
        /\ cfg.clash => OLD \in SeqSet(inits)
        /\ cfg.shadow => \E n \in 1..Len(m.nodes) : m.nodes[n].g # ROOT /\ m.graphs[ROOT].order[1] \in {m.vals[m.nodes[n].ins[i]].p : i \in 1..Len(m.nodes[n].ins)}
        /\ m' = m2
        /\ h' = [h EXCEPT !.orig = m2, !.ref = EvalModel(m2), !.any = AnyMatch(m2)]
  /\ phase' = "begin"
  /\ UNCHANGED <<cfg, bs, eng>>

-----------------------------------------------------------------------------
(* 2. the engine *)
NoPend == [r |-> "", mt |-> NoMatch, newn |-> <<>>, outs |-> <<>>, inits |-> <<>>]
Frame(mm, g) == [g |-> g, cur |-> IF mm.graphs[g].order = <<>> THEN 0 ELSE mm.graphs[g].order[1], subq |-> <<>>, vi |-> 1, stage |-> "try"]
F == Last(eng.st)
SetF(f) == [eng EXCEPT !.st[Len(eng.st)] = f]

\* rule sets in which some deviation can be reached: for them the DESIGN (devs = {}) and the implementation
\* model (devs = Deviations) are both explored from the same host; elsewhere the two coincide
DevProne == \E i \in 1..Len(cfg.rules) : cfg.rules[i] \in {"dbl", "fn", "pair", "ext", "dag", "dagr", "dagm"}
Devs == eng.devs
Begin ==          \* apply_to_model: the main graph first, then the functions that existed before
  /\ phase = "begin"
  /\ \E d \in (IF DevProne THEN {{}, Deviations} ELSE {Deviations}) :
        eng' = [st |-> <<Frame(m, 1)>>, fq |-> m.funcs, count |-> 0, pend |-> NoPend, dirty |-> FALSE, devs |-> d]
  /\ phase' = "engine"
  /\ UNCHANGED <<cfg, m, bs, h>>

\* try_rewrite of the rules in order (from variant F.vi): match, replacement, opset imports of graph and model
TryRule ==
  /\ phase = "engine" /\ F.stage = "try" /\ F.cur # 0
  /\ LET hits == {i \in F.vi..Len(RV) : MatchV(m, F.cur, RV[i][1], RV[i][2], Devs).ok} IN
     IF hits = {}
     THEN /\ eng' = [SetF(IF m.nodes[F.cur].subs = <<>> THEN [F EXCEPT !.cur = NextOf(m, F.cur), !.vi = 1]       \* (Advance folded in)
                                ELSE [F EXCEPT !.stage = "desc", !.subq = m.nodes[F.cur].subs]) EXCEPT !.dirty = FALSE]
          /\ UNCHANGED <<m, h>>
     ELSE LET i == Min(hits)
              r == RV[i][1]
              mt == MatchV(m, F.cur, r, RV[i][2], Devs)
              d == MakeDelta(m, r, mt)
              nn == Len(m.nodes)
              m1 == [m EXCEPT !.nodes = @ \o d.nodes, !.vals = @ \o d.vals]
              \* _update_opset_imports(graph_or_function) and (model.graph).  For a match in a body nested in a
              \* model-local function the enclosing FUNCTION is neither of the two; the design imports there too.
              rootg == RootOf(m, F.g)
              lacks == rootg \notin {F.g, 1} /\ SortedDoms(d.doms, m.graphs[rootg].imports) # <<>>
              where == IF "function_nested_import_missing" \in Devs THEN {F.g, 1} ELSE {F.g, 1, rootg}
              m2 == [m1 EXCEPT !.graphs = [g \in 1..Len(@) |-> IF g \in where THEN [@[g] EXCEPT !.imports = AddImports(@, d.doms)] ELSE @[g]]]
          IN /\ m' = m2
             /\ eng' = [SetF([F EXCEPT !.vi = i + 1,
                                       !.stage = IF d.inits # <<>> THEN "inits" ELSE IF AsFunction(r) THEN "func" ELSE "splice"])
                          EXCEPT !.pend = [r |-> r, mt |-> mt, newn |-> [k \in 1..Len(d.nodes) |-> nn + k], outs |-> d.outs, inits |-> d.inits],
                                 !.dirty = FALSE]
             /\ h' = [h EXCEPT !.why = @ \cup (IF NeedsVarDev(m, F.cur, r, RV[i][2]) /\ "var_binds_removed_intermediate" \in Devs THEN {"var_binds_removed_intermediate"} ELSE {})
                                         \cup (IF lacks /\ "function_nested_import_missing" \in Devs THEN {"function_nested_import_missing"} ELSE {})]
  /\ UNCHANGED <<phase, cfg, bs>>

\* new initializers: not possible inside a function (the rule is skipped, the next rule is tried); otherwise
\* registered under their name.  When the name is taken the code's `continue` does nothing and the entry is
\* overwritten (the displaced value stays referenced by its consumers); the design picks a free name.
RegisterInitializers ==
  /\ phase = "engine" /\ F.stage = "inits"
  /\ IF m.graphs[F.g].kind = "func"
     THEN /\ eng' = [SetF([F EXCEPT !.stage = "try"]) EXCEPT !.pend = NoPend]
          /\ UNCHANGED <<m, h>>
     ELSE LET v == eng.pend.inits[1]
              nm == m.vals[v].name
              same == {w \in SeqSet(m.graphs[F.g].inits) : m.vals[w].name = nm}
              free == nm \o "_r" \o ToString(v) IN
          /\ IF same = {} THEN m' = [m EXCEPT !.graphs[F.g].inits = Append(@, v), !.vals[v].g = F.g] /\ h' = h
             ELSE IF "init_clash_overwrite" \in Devs
                  THEN /\ m' = [m EXCEPT !.graphs[F.g].inits = [i \in 1..Len(@) |-> IF @[i] \in same THEN v ELSE @[i]], !.vals[v].g = F.g]
                       /\ h' = [h EXCEPT !.why = @ \cup {"init_clash_overwrite"}]
                  ELSE /\ m' = [m EXCEPT !.graphs[F.g].inits = Append(@, v), !.vals[v].g = F.g, !.vals[v].name = free]
                       /\ h' = h
          /\ eng' = SetF([F EXCEPT !.stage = "splice"])
  /\ UNCHANGED <<phase, cfg, bs>>

\* as_function: the matched nodes are copied into a new model-local function under a fresh overload
ExtractFunction ==
  /\ phase = "engine" /\ F.stage = "func"
  /\ m' = ExtractFn(m, F.g, eng.pend, Devs)
  /\ h' = IF m.graphs[F.g].owner # 0 /\ "as_function_nested_opsets" \in Devs
             /\ ExtractFn(m, F.g, eng.pend, {}).graphs # ExtractFn(m, F.g, eng.pend, Devs).graphs
          THEN [h EXCEPT !.why = @ \cup {"as_function_nested_opsets"}] ELSE h
  /\ eng' = SetF([F EXCEPT !.stage = "splice"])
  /\ UNCHANGED <<phase, cfg, bs>>

\* replace_nodes_and_values: names copied, uses redirected (graph outputs, nested bodies), new nodes inserted after
\* the cursor node, matched nodes erased unless the rule keeps them (safe=True raises if a value is still used)
Splice ==
  /\ phase = "engine" /\ F.stage = "splice"
  /\ LET p == eng.pend
         m1 == SpliceModel(m, F.g, F.cur, p, Devs)
         rem == IF Removes(p.r) THEN p.mt.nodes ELSE <<>>
         moved == InsertionIndex(m, F.g, F.cur, p.mt, {}) # InsertionIndex(m, F.g, F.cur, p.mt, AllDevs)
         why2 == IF moved /\ "multi_output_insertion_point" \in Devs THEN h.why \cup {"multi_output_insertion_point"} ELSE h.why
         app == [rule |-> p.r, nodes |-> p.mt.nodes, olds |-> p.mt.outs, news |-> p.outs, newn |-> p.newn,
                 removable |-> RemovableMatch(m, p.mt)]
     IN IF SafeToRemove(m1, rem)
        THEN /\ m' = EraseAll(m1, rem, 1)
             /\ eng' = [SetF([F EXCEPT !.stage = "desc", !.subq = m.nodes[F.cur].subs]) EXCEPT !.pend = NoPend, !.count = @ + 1, !.dirty = TRUE]
             /\ h' = [h EXCEPT !.why = why2, !.apps = Append(@, app)]
             /\ phase' = phase
        ELSE /\ m' = m1                       \* ValueError out of rewrite(): the model is left half rewritten
             /\ eng' = [eng EXCEPT !.dirty = FALSE]
             /\ h' = [h EXCEPT !.why = why2, !.raised = TRUE]
             /\ phase' = "done"
  /\ UNCHANGED <<cfg, bs>>

Descend ==        \* rules are applied to the graph attributes of the cursor node (even if it was just erased)
  /\ phase = "engine" /\ F.stage = "desc" /\ F.subq # <<>>
  /\ eng' = [eng EXCEPT !.st = Append([@ EXCEPT ![Len(@)] = [F EXCEPT !.subq = Tail(@)]], Frame(m, Head(F.subq))), !.dirty = FALSE]
  /\ UNCHANGED <<phase, cfg, m, bs, h>>
Advance ==        \* the iterator moves on: through the (possibly stale) next pointer of the cursor node
  /\ phase = "engine" /\ F.stage = "desc" /\ F.subq = <<>>
  /\ eng' = [SetF([F EXCEPT !.cur = NextOf(m, F.cur), !.vi = 1, !.stage = "try"]) EXCEPT !.dirty = FALSE]
  /\ UNCHANGED <<phase, cfg, m, bs, h>>
Ascend ==
  /\ phase = "engine" /\ F.stage = "try" /\ F.cur = 0 /\ Len(eng.st) > 1
  /\ eng' = [eng EXCEPT !.st = SubSeq(@, 1, Len(@) - 1), !.dirty = FALSE]
  /\ UNCHANGED <<phase, cfg, m, bs, h>>
NextFunction ==
  /\ phase = "engine" /\ F.stage = "try" /\ F.cur = 0 /\ Len(eng.st) = 1 /\ eng.fq # <<>>
  /\ eng' = [eng EXCEPT !.st = <<Frame(m, Head(eng.fq))>>, !.fq = Tail(@), !.dirty = FALSE]
  /\ UNCHANGED <<phase, cfg, m, bs, h>>
EndApply ==
  /\ phase = "engine" /\ F.stage = "try" /\ F.cur = 0 /\ Len(eng.st) = 1 /\ eng.fq = <<>>
  /\ phase' = "post"
  /\ eng' = [eng EXCEPT !.dirty = FALSE]
  /\ UNCHANGED <<cfg, m, bs, h>>

KeepsNodes == \E i \in 1..Len(cfg.rules) : ~Removes(cfg.rules[i])
PostPasses ==     \* remove_unused_nodes when some rule keeps its nodes; NameFixPass when anything was rewritten
  /\ phase = "post"
  /\ LET m1 == IF KeepsNodes THEN DCE(m) ELSE m
         m2 == IF eng.count > 0 THEN NameFix(m1, Devs) ELSE m1
         md == IF eng.count > 0 THEN NameFix(m1, {}) ELSE m1
     IN /\ m' = m2
        /\ h' = [h EXCEPT !.after = m2,                  \* what apply_to_model() leaves behind
                          !.alt = md, !.why = IF m2 # md THEN @ \cup {"subgraph_name_clash"} ELSE @]
  /\ phase' = "cleanup"
  /\ UNCHANGED <<cfg, bs, eng>>
Cleanup ==        \* rewrite(): RemoveUnusedNodesPass, RemoveUnusedFunctionsPass, RemoveUnusedOpsetsPass
  /\ phase = "cleanup"
  /\ m' = RemoveUnusedOpsets(RemoveUnusedFunctions(DCE(m)))
  /\ h' = [h EXCEPT !.alt = RemoveUnusedOpsets(RemoveUnusedFunctions(DCE(@)))]
  /\ phase' = "done"
  /\ UNCHANGED <<cfg, bs, eng>>

-----------------------------------------------------------------------------
\* the host of rule "ext" carries the model-local function ext::MyRelu(x) = Max(x, Sub(x, x)) (no operator of any pattern);
\* the model does NOT import the domain "ext" (nothing calls it yet)
WithExtFn(mm) ==
  LET nv == Len(mm.vals)
      nn == Len(mm.nodes)
      fg == Len(mm.graphs) + 1
      g == [GR("func", <<nv + 1>>, 0, << <<"", 18>> >>, <<"ext", "MyRelu", "">>) EXCEPT !.order = <<nn + 1, nn + 2>>, !.outs = <<nv + 3>>] IN
  [mm EXCEPT !.vals = @ \o <<V("ex", NC, fg, 0), V("ez", NC, fg, nn + 1), V("ey", NC, fg, nn + 2)>>,
             !.nodes = @ \o <<N("Sub", "", <<nv + 1, nv + 1>>, nv + 2, <<>>, fg, "e1"), N("Max", "", <<nv + 1, nv + 2>>, nv + 3, <<>>, fg, "e2")>>,
             !.graphs = Append(@, g), !.funcs = Append(@, fg)]
HasExt(rs) == \E i \in 1..Len(rs.rules) : rs.rules[i] = "ext"
InitModel0(rs) ==
  LET base == <<V("a", NC, 1, 0), V("b", NC, 1, 0), V("c", NC, 1, 0), V(IF "Mul1v" \in rs.ops THEN "one1" ELSE "one", 1, 1, 0), V("trip", 2, 1, 0), V("ctrue", 1, 1, 0),
                V(IF rs.clash THEN "a_two" ELSE "three", 3, 1, 0)>>
      main == GR("main", <<A, B, C>>, 0, << <<"", 18>> >>, NOFID) IN
  IF ~rs.wrap THEN [nodes |-> <<>>, vals |-> base, graphs |-> <<main>>, funcs |-> <<>>]
  ELSE [nodes |-> <<N("F", "local", <<A, B, C>>, 8, <<>>, 1, "call")>>,
        vals |-> base \o <<V("o", NC, 1, 1), V("a", NC, 2, 0), V("b", NC, 2, 0), V("c", NC, 2, 0)>>,
        graphs |-> <<[main EXCEPT !.order = <<1>>, !.outs = <<8>>, !.imports = << <<"", 18>>, <<"local", 1>> >>],
                     GR("func", <<9, 10, 11>>, 0, << <<"", 18>> >>, <<"local", "F", "">>)>>,
        funcs |-> <<2>>]
InitModel(rs) == IF HasExt(rs) THEN WithExtFn(InitModel0(rs)) ELSE InitModel0(rs)
Init == /\ phase = "build"
        /\ cfg \in RuleSets
        /\ m = InitModel(cfg)
        /\ bs = [st |-> <<[g |-> IF cfg.wrap THEN 2 ELSE 1, kind |-> "root", node |-> 0]>>, np |-> 0]
        /\ eng = [st |-> <<>>, fq |-> <<>>, count |-> 0, pend |-> NoPend, dirty |-> FALSE, devs |-> Deviations]
        /\ h = [root |-> IF cfg.wrap THEN 2 ELSE 1, ia |-> IF cfg.wrap THEN 9 ELSE A, ib |-> IF cfg.wrap THEN 10 ELSE B, ic |-> IF cfg.wrap THEN 11 ELSE C,
                orig |-> InitModel(cfg), after |-> InitModel(cfg), alt |-> InitModel(cfg), ref |-> <<>>, any |-> FALSE, why |-> {}, apps |-> <<>>, raised |-> FALSE]
Next == \/ (phase = "build" /\ \E op \in cfg.ops : \E args \in ArgChoices(op) : AddNode(op, args))
        \/ OpenIf \/ NextBranch \/ CloseIf
        \/ (phase = "build" /\ \E v0 \in LastOuts(m, Top.g, 1) \cup {IA} : OpenLoop(v0))
        \/ CloseLoop \/ Finish
        \/ Begin \/ TryRule \/ RegisterInitializers \/ ExtractFunction \/ Splice \/ Descend \/ Advance \/ Ascend
        \/ NextFunction \/ EndApply \/ PostPasses \/ Cleanup
Spec == Init /\ [][Next]_vars

-----------------------------------------------------------------------------
(* 3. the property *)
Matched == UNION {SeqSet(h.apps[i].nodes) : i \in 1..Len(h.apps)}
\* where an original value ended up: the replacement outputs take over every use of the matched outputs
RECURSIVE Chase(_, _)
Chase(v, k) == IF k > Len(h.apps) THEN v
               ELSE LET a == h.apps[k] IN
                    Chase(IF \E i \in 1..Len(a.olds) : a.olds[i] = v THEN a.news[Min({i \in 1..Len(a.olds) : a.olds[i] = v})] ELSE v, k + 1)
SigOK(mm) == /\ mm.graphs[1].ins = h.orig.graphs[1].ins
         /\ [i \in 1..Len(mm.graphs[1].ins) |-> mm.vals[mm.graphs[1].ins[i]].name] = [i \in 1..Len(mm.graphs[1].ins) |-> h.orig.vals[mm.graphs[1].ins[i]].name]
         /\ [i \in 1..Len(mm.graphs[1].outs) |-> mm.vals[mm.graphs[1].outs[i]].name] = [i \in 1..Len(h.orig.graphs[1].outs) |-> h.orig.vals[h.orig.graphs[1].outs[i]].name]
\* exactly the matched nodes are gone; every other node is where it was, reads what it read (modulo the
\* redirected outputs) and keeps its metadata; original initializers keep name and value
FrameOK(mm) ==
  /\ \A n \in 1..Len(h.orig.nodes) :
       n \in Matched
       \/ (/\ InOrder(mm, n) /\ mm.nodes[n].g = h.orig.nodes[n].g
           /\ mm.nodes[n].op = h.orig.nodes[n].op /\ mm.nodes[n].src = h.orig.nodes[n].src /\ mm.nodes[n].rule = ""
           /\ mm.nodes[n].ins = [i \in 1..Len(h.orig.nodes[n].ins) |-> Chase(h.orig.nodes[n].ins[i], 1)])
       \/ (Uses(mm, mm.nodes[n].out) = {} /\ ~InOrder(mm, n))               \* dead code goes with the clean-up passes
  /\ \A n \in Matched : \/ ~InOrder(mm, n)
                        \/ \E i \in 1..Len(h.apps) : n \in SeqSet(h.apps[i].nodes) /\ ~Removes(h.apps[i].rule)
  /\ \A v \in SeqSet(h.orig.graphs[1].inits) :
       \/ (v \in SeqSet(mm.graphs[1].inits) /\ mm.vals[v].name = h.orig.vals[v].name)
       \/ Uses(mm, v) = {}
  \* the relative order of the surviving original nodes of every graph is unchanged
  /\ \A g \in 1..Len(h.orig.graphs) :
       SelectSeq(mm.graphs[g].order, LAMBDA n : n <= Len(h.orig.nodes)) = SelectSeq(h.orig.graphs[g].order, LAMBDA n : InOrder(mm, n))
\* every step of the engine leaves a well-formed graph that computes the same function
\* (WFids includes Graph!Scoped: every use comes after its definition - the node list stays topologically sorted)
StepWF == (phase = "engine" /\ eng.dirty) \/ phase = "cleanup" => WFids(m)      \* after every Splice, after the post passes
StepEval == phase = "engine" /\ eng.dirty => EvalModel(m) = h.ref
Terminates == eng.count < MAXCOUNT
DoneOKm(mm) == /\ ~h.raised
               /\ WFids(mm) /\ WFnames(mm)
               /\ EvalModel(mm) = h.ref
               /\ SigOK(mm) /\ FrameOK(mm)
               /\ (h.any => eng.count >= 1)
DoneOK == DoneOKm(m)
\* which clauses fail (for the emitted case)
Fails == (IF h.raised THEN <<"raised">> ELSE <<>>) \o (IF WFids(m) THEN <<>> ELSE <<"structure">>) \o (IF WFscoped(m) THEN <<>> ELSE <<"names">>)
         \o (IF WFssa(m) THEN <<>> ELSE <<"ssa">>) \o (IF EvalModel(m) = h.ref THEN <<>> ELSE <<"eval">>) \o (IF SigOK(m) THEN <<>> ELSE <<"signature">>)
         \o (IF FrameOK(m) THEN <<>> ELSE <<"frame">>) \o (IF h.any => eng.count >= 1 THEN <<>> ELSE <<"progress">>)
\* a match that is not removable is left untouched: whatever a removing rule was applied to was a removable instance
OnlyRemovable == \A i \in 1..Len(h.apps) : Removes(h.apps[i].rule) => h.apps[i].removable
Holds == /\ StepWF /\ StepEval /\ Terminates /\ OnlyRemovable
         /\ (phase = "done" => DoneOK)
\* design run (Deviations = {}): the property
PropertyHolds == eng.devs = {} => Holds
\* implementation-model run: everything a deviation does not explain still satisfies the property
DeviationsExplain == eng.devs # {} /\ h.why = {} => Holds
\* the NameFix deviation acts in a single step: there the design variant (h.alt) is computed next to the implementation
\* variant from the same state, and judged here
DesignNames == phase = "done" /\ ~h.raised /\ h.why \subseteq {"subgraph_name_clash"} => DoneOKm(h.alt)

\* vacuity witnesses (each must be VIOLATED)
NeverRewrites == eng.count = 0
NeverNested == \A i \in 1..Len(h.apps) : h.orig.graphs[h.orig.nodes[h.apps[i].nodes[1]].g].owner = 0
NeverDeclinesUnremovable == ~(phase = "done" /\ \E n \in 1..Len(h.orig.nodes) : h.orig.nodes[n].op = "Dropout" /\ h.orig.nodes[n].out2 # 0
                                                   /\ Uses(h.orig, h.orig.nodes[n].out2) # {} /\ InOrder(m, n) /\ eng.count > 0)
NeverNeedsDeviation == phase = "done" => h.why = {}
NeverOverlaps == ~(phase = "done" /\ \E i \in 1..Len(h.apps) : \E n \in SeqSet(h.apps[i].nodes) : n > Len(h.orig.nodes))

-----------------------------------------------------------------------------
(* case emission *)
RECURSIVE GJ(_, _)
GJ(mm, g) ==
  LET gr == mm.graphs[g] IN
  [kind |-> gr.kind,
   ins |-> [i \in 1..Len(gr.ins) |-> mm.vals[gr.ins[i]].name],
   outs |-> [i \in 1..Len(gr.outs) |-> mm.vals[gr.outs[i]].name],
   inits |-> [i \in 1..Len(gr.inits) |-> [name |-> mm.vals[gr.inits[i]].name, k |-> mm.vals[gr.inits[i]].k]],
   nodes |-> [k \in 1..Len(gr.order) |->
                LET n == mm.nodes[gr.order[k]] IN
                [id |-> gr.order[k], op |-> n.op, dom |-> n.dom, ovl |-> n.ovl, ins |-> [i \in 1..Len(n.ins) |-> mm.vals[n.ins[i]].name],
                 out |-> mm.vals[n.out].name, out2 |-> IF n.out2 = 0 THEN "" ELSE mm.vals[n.out2].name, subs |-> [j \in 1..Len(n.subs) |-> GJ(mm, n.subs[j])], src |-> n.src, rule |-> n.rule]]]
MJ(mm) == [graph |-> GJ(mm, 1), imports |-> mm.graphs[1].imports,
           funcs |-> [i \in 1..Len(mm.funcs) |-> [fid |-> mm.graphs[mm.funcs[i]].fid, imports |-> mm.graphs[mm.funcs[i]].imports, graph |-> GJ(mm, mm.funcs[i])]]]
SortedWhy == IF h.why = {} THEN <<>> ELSE LET S == h.why IN
             SelectSeq(<<"as_function_nested_opsets", "function_nested_import_missing", "init_clash_overwrite", "multi_output_insertion_point", "var_binds_removed_intermediate", "subgraph_name_clash">>, LAMBDA d : d \in S)
Emit == phase = "done" /\ eng.devs = Deviations =>
  PrintT(<<"CASE", ToJson([rules |-> cfg.rules, commute |-> cfg.commute, wrap |-> cfg.wrap,
                           orig |-> MJ(h.orig), after |-> MJ(h.after), final |-> MJ(m), count |-> eng.count, raised |-> h.raised,
                           why |-> SortedWhy, ref |-> h.ref, any |-> h.any,
                           matched |-> [i \in 1..Len(h.apps) |-> [rule |-> h.apps[i].rule, srcs |-> [k \in 1..Len(h.apps[i].nodes) |-> m.nodes[h.apps[i].nodes[k]].src]]],
                           ok |-> DoneOK, fails |-> Fails])>>)

-----------------------------------------------------------------------------
(* rule sets *)
RS(rules, ops, commute, n, d, ifs, loops, shadow, clash, wrap, xouts) ==
  [rules |-> rules, ops |-> ops, commute |-> commute, n |-> n, d |-> d, ifs |-> ifs, loops |-> loops, shadow |-> shadow, clash |-> clash,
   wrap |-> wrap, xouts |-> xouts]
T == TRUE
X == FALSE
\* quick            rules                  host steps                          commute n d ifs loops shadow clash wrap xouts
Q_negneg   == {RS(<<"negneg">>,            {"Neg"},                            X, 4, 1, T, X, X, X, X, T),
               RS(<<"negneg">>,            {"Neg"},                            X, 3, 1, X, T, X, X, X, X),
               RS(<<"negneg">>,            {"Neg"},                            X, 3, 1, T, X, X, X, T, X)}
Q_keep     == {RS(<<"keep">>,              {"Neg"},                            X, 4, 1, T, X, X, X, X, T),
               RS(<<"keep", "negneg">>,    {"Neg"},                            X, 3, 1, X, X, X, X, X, T)}
Q_relurelu == {RS(<<"relurelu">>,          {"Relu"},                           X, 4, 1, T, X, X, X, X, X)}
Q_mul1     == {RS(<<"mul1">>,              {"Mul1", "Mul1c", "Neg"},           c, 3, 1, T, X, X, X, X, X) : c \in BOOLEAN}
\* near miss: the constant 1 has shape [1] (not neutral for a rank-0 operand): the scalar pattern constant must not match it
Q_mul1v    == {RS(<<"mul1">>,              {"Mul1v", "Mul1vc", "Neg"},         c, 3, 1, X, X, X, X, X, X) : c \in BOOLEAN}
Q_subneg   == {RS(<<"subneg">>,            {"Sub"},                            X, 2, 1, T, T, X, X, w, X) : w \in BOOLEAN}
              \cup {RS(<<"subneg">>,       {"Sub", "Relu"},                    X, 3, 1, T, X, T, X, X, X),
                    RS(<<"subneg">>,       {"SubP", "Relu"},                   X, 3, 1, X, T, X, X, X, X)}
Q_addsum   == {RS(<<"addsum">>,            {"Add"},                            c, 2, 1, T, X, X, X, X, X) : c \in BOOLEAN}
Q_chain    == {RS(rs,                      {"Sub", "Add"},                     X, 2, 1, T, X, X, X, X, X) : rs \in {<<"subneg", "addsum">>, <<"addsum", "subneg">>}}
              \cup {RS(<<"subneg", "negneg">>, {"Sub", "Neg"},                 X, 2, 1, T, X, X, X, X, X)}
Q_dbl      == {RS(<<"dbl">>,               {"Add", "Mul3"},                    X, 2, 1, T, X, X, cl, X, X) : cl \in BOOLEAN}
              \cup {RS(<<"dbl", "subneg">>, {"Add", "Sub"},                    X, 2, 1, T, X, X, X, T, X)}
              \cup {RS(rs,                 {"Add"},                            X, 2, 1, T, X, X, X, X, X) : rs \in {<<"dbl", "addsum">>, <<"addsum", "dbl">>}}
Q_fn       == {RS(<<"fn">>,                {"I_fn", "I_fnc", "Neg"},           c, 2, 1, T, X, X, X, w, T) : c \in BOOLEAN, w \in BOOLEAN}
              \cup {RS(<<"fn">>,           {"Neg", "Add"},                     c, 2, 1, X, X, X, X, X, X) : c \in BOOLEAN}
              \cup {RS(<<"negneg", "fn">>, {"I_fn", "Neg"},                    X, 2, 1, X, X, X, X, X, X)}
Q_pair     == {RS(<<"pair">>,              {"I_pair", "I_pairr", "I_pairc", "I_pairs", "Relu"}, c, 2, 1, T, X, X, X, X, X) : c \in BOOLEAN}
              \cup {RS(<<"pair">>,         {"I_pair", "Relu"},                 X, 2, 1, T, X, T, X, T, X)}
\* replacement in a domain the model does not import (matches in the main graph, in If/Loop bodies, in a function)
Q_ext      == {RS(<<"ext">>,               {"Relu", "Neg"},                    X, 2, 1, T, T, X, X, w, X) : w \in BOOLEAN}
\* as_function over a DAG pattern with a shared interior value (both operand orders) and with two outputs
Q_dag      == {RS(<<r>>,                   {"I_dag", "I_dagr", "Neg"},         X, 2, 1, X, X, X, X, w, T) : r \in {"dag", "dagr"}, w \in BOOLEAN}
              \cup {RS(<<"dag">>,          {"I_dag", "I_dagr", "Neg"},         T, 2, 1, T, X, X, X, X, X)}
              \cup {RS(<<"dagm">>,         {"I_dagm", "I_dagms", "Neg"},       X, 2, 1, X, X, X, X, w, X) : w \in BOOLEAN}
\* a root node with an output the pattern does not bind: read elsewhere (not removable), unused, absent
Q_drop     == {RS(<<"drop">>,              {"Drop", "I_drop2", "I_dropm", "Neg"}, X, 2, 1, T, X, X, X, w, X) : w \in BOOLEAN}
QuickSets == Q_mul1v \cup Q_drop \cup Q_ext \cup Q_dag \cup Q_negneg \cup Q_keep \cup Q_relurelu \cup Q_mul1 \cup Q_subneg \cup Q_addsum \cup Q_chain \cup Q_dbl \cup Q_fn \cup Q_pair
\* thorough: one more step everywhere, loops in more families, depth 2 and single-node alphabets for the cheap ones
T_negneg   == {RS(<<"negneg">>,            {"Neg"},                            X, 4, 1, T, T, X, X, X, T),
               RS(<<"negneg">>,            {"Neg"},                            X, 5, 1, T, X, X, X, X, X),
               RS(<<"negneg">>,            {"Neg"},                            X, 3, 2, T, T, X, X, X, X),
               RS(<<"negneg">>,            {"Neg", "Relu"},                    X, 3, 1, T, X, X, X, T, X)}
T_keep     == {RS(rs,                      {"Neg"},                            X, 4, 1, T, X, X, X, X, T) : rs \in {<<"keep">>, <<"keep", "negneg">>, <<"negneg", "keep">>}}
T_relurelu == {RS(<<"relurelu">>,          {"Relu"},                           X, 4, 1, T, T, X, X, X, T),
               RS(<<"relurelu">>,          {"Relu"},                           X, 5, 1, X, X, X, X, X, X)}
T_mul1     == {RS(<<"mul1">>,              {"Mul1", "Mul1c"},                  c, 3, 1, T, T, X, X, X, X) : c \in BOOLEAN}
T_subneg   == {RS(<<"subneg">>,            {"Sub", "Relu"},                    X, 3, 1, T, T, X, X, X, X)}
              \cup {RS(<<"subneg">>,       {"Sub", "Relu"},                    X, 3, 1, T, X, T, X, w, X) : w \in BOOLEAN}
T_chain    == {RS(rs,                      {"Sub", "Add"},                     X, 3, 1, T, X, X, X, X, X) : rs \in {<<"subneg", "addsum">>, <<"addsum", "subneg">>}}
              \cup {RS(rs,                {"Sub", "Neg"},                     X, 3, 1, T, X, X, X, X, X) : rs \in {<<"subneg", "negneg">>, <<"negneg", "subneg">>}}
              \cup {RS(<<"addsum">>,      {"Add"},                            T, 3, 1, T, X, X, X, X, X)}
T_dbl      == {RS(rs,                      {"Add", "Mul3"},                    X, 3, 1, T, X, X, cl, X, X) : rs \in {<<"dbl">>, <<"dbl", "addsum">>, <<"addsum", "dbl">>}, cl \in BOOLEAN}
              \cup {RS(<<"dbl", "subneg">>, {"Add", "Sub"},                   X, 3, 1, T, X, X, X, T, X)}
T_fn       == {RS(<<"fn">>,                {"I_fn", "I_fnc", "Neg"},           c, 3, 1, T, X, X, X, w, X) : c \in BOOLEAN, w \in BOOLEAN}
              \cup {RS(<<"fn">>,          {"Neg", "Add"},                     c, 3, 1, X, X, X, X, X, T) : c \in BOOLEAN}
              \cup {RS(rs,                {"I_fn", "I_fnc", "Neg"},           X, 3, 1, X, X, X, X, X, X) : rs \in {<<"negneg", "fn">>, <<"fn", "negneg">>}}
T_pair     == {RS(<<"pair">>,              {"I_pair", "I_pairr", "I_pairc", "I_pairs", "Relu"}, c, 3, 1, T, X, X, X, X, X) : c \in BOOLEAN}
              \cup {RS(<<"pair">>,        {"Sub", "Add", "Relu"},             X, 3, 1, X, X, sh, X, X, X) : sh \in BOOLEAN}
              \cup {RS(<<"pair">>,        {"I_pair", "I_pairc", "Relu"},      X, 3, 1, T, X, T, X, T, X)}
              \cup {RS(<<"pair", "subneg">>, {"I_pair", "I_pairc", "Sub"},    X, 2, 1, T, X, X, X, X, X)}
T_ext      == {RS(rs,                      {"Relu", "Neg"},                    X, 3, 1, T, T, X, X, w, X) : rs \in {<<"ext">>, <<"ext", "negneg">>}, w \in BOOLEAN}
T_dag      == {RS(<<r>>,                   {"I_dag", "I_dagr", "Neg", "Relu"}, X, 3, 1, X, X, X, X, w, T) : r \in {"dag", "dagr"}, w \in BOOLEAN}
              \cup {RS(<<"dag">>,          {"I_dag", "I_dagr", "Neg"},         T, 3, 1, T, X, X, X, X, X)}
              \cup {RS(<<"dagm">>,         {"I_dagm", "I_dagms", "Neg", "Identity"}, X, 3, 1, X, X, X, X, w, X) : w \in BOOLEAN}
              \cup {RS(<<"dagm">>,         {"I_dagm", "Neg"},                  X, 2, 1, T, X, X, X, X, X)}
T_drop     == {RS(rs,                      {"Drop", "I_drop2", "I_dropm", "Neg"}, X, 3, 1, T, T, X, X, w, X) : rs \in {<<"drop">>, <<"drop", "negneg">>}, w \in BOOLEAN}
ThoroughSets == Q_mul1v \cup T_drop \cup T_ext \cup T_dag \cup T_negneg \cup T_keep \cup T_relurelu \cup T_mul1 \cup T_subneg \cup T_chain \cup T_dbl \cup T_fn \cup T_pair
VacuitySets == {RS(<<"subneg">>, {"Sub"}, X, 2, 1, T, X, X, X, X, X), RS(<<"dbl">>, {"Add"}, X, 2, 1, X, X, X, X, X, X),
                RS(<<"relurelu">>, {"Relu"}, X, 3, 1, X, X, X, X, X, X), RS(<<"pair">>, {"I_pairc"}, X, 1, 1, X, X, X, X, X, X),
                RS(<<"drop">>, {"Drop", "I_dropm"}, X, 2, 1, X, X, X, X, X, X)}
\* sizing aid: `CONSTRAINT BuildOnly` + `INVARIANT CountHost` enumerates the hosts of a rule set without running the engine
BuildOnly == phase = "build"
CountHost == phase = "begin" => PrintT(<<"HOST", cfg.n>>)
NoDevs == {}
\* init_clash_overwrite was real on the pinned tree and is repaired in /repo (fix db578e7: the new initializer gets a free name,
\* as the design action RegisterInitializers says); the deviation stays in the module so that its return is recognised.
RealDevs == AllDevs \ {"init_clash_overwrite"}
=============================================================================
