----------------------------- MODULE ConstCache -----------------------------
(* C12/C18: GraphBuilder._constant_cache as a state machine.                                    *)
(* A behaviour is a history of literal promotions Promote(v, dt) into one builder.  The code     *)
(* keys the cache with the Python tuple (value, dtype) under ==/hash; the design keys it with    *)
(* the bit pattern of the tensor element.  Property CacheSound: a promotion always yields a      *)
(* tensor holding exactly the literal's value in the requested dtype (so two literals share an   *)
(* initializer only if their tensors are bit-identical).                                         *)
(* Deviations: "cache_signed_zero" (0.0 == -0.0 under Python equality),                          *)
(*             "cache_nan_dup" (nan != nan: never a hit, second registration raises).            *)
EXTENDS Integers, Sequences, FiniteSets, TLC

CONSTANTS Deviations, MaxLen, Values
VARIABLES cache, hist, outcome
vars == <<cache, hist, outcome>>

Dtypes == {"FLOAT", "INT64", "BOOL"}
\* literal tokens: numeric value num/den, negative-zero flag, Python type
V == [i0 |-> <<0, 1, FALSE, "int">>, i1 |-> <<1, 1, FALSE, "int">>, im3 |-> <<-3, 1, FALSE, "int">>,
      f0 |-> <<0, 1, FALSE, "float">>, fn0 |-> <<0, 1, TRUE, "float">>, f1 |-> <<1, 1, FALSE, "float">>,
      f25 |-> <<5, 2, FALSE, "float">>, bT |-> <<1, 1, FALSE, "bool">>, bF |-> <<0, 1, FALSE, "bool">>,
      nan |-> <<0, 0, FALSE, "float">>]
IsNan(v) == V[v][2] = 0
TruncQ(n, d) == LET q == (IF n < 0 THEN -n ELSE n) \div d IN IF n < 0 THEN -q ELSE q
\* element bits of literal v in dtype dt: <<kind, num, den, negzero>>
Bits(v, dt) == LET x == V[v] IN
   IF IsNan(v) THEN (IF dt = "FLOAT" THEN <<"f", "nan", 1, FALSE>> ELSE <<"x", 0, 1, FALSE>>)
   ELSE IF dt = "FLOAT" THEN <<"f", x[1], x[2], x[3]>>
   ELSE IF dt = "BOOL" THEN <<"b", IF x[1] # 0 THEN 1 ELSE 0, 1, FALSE>>
   ELSE <<"i", TruncQ(x[1], x[2]), 1, FALSE>>
\* Python equality class of a literal: numbers compare by value, True == 1, 0.0 == -0.0, nan != nan
PyKey(v) == IF IsNan(v) THEN <<"nan">> ELSE <<V[v][1], V[v][2]>>
\* str(value) as used in the initializer name
Repr(v) == CASE v = "i0" -> "0" [] v = "i1" -> "1" [] v = "im3" -> "-3" [] v = "f0" -> "0.0" [] v = "fn0" -> "-0.0"
             [] v = "f1" -> "1.0" [] v = "f25" -> "2.5" [] v = "bT" -> "True" [] v = "bF" -> "False" [] v = "nan" -> "nan"
\* design (and the code since "fix: key the builder's constant cache by type and text"): the key is the
\* literal's Python type and repr, so 0 / 0.0 / -0.0 / False are four entries and nan equals nan
KeyOf(v, dt, devs) == IF "cache_signed_zero" \in devs THEN <<PyKey(v), dt>>
                      ELSE <<<<Repr(v), V[v][4]>>, dt>>
NameOf(v, dt) == <<Repr(v), dt>>

Init == cache = {} /\ hist = <<>> /\ outcome = <<>>
Promote(v, dt) ==
   /\ Len(hist) < MaxLen
   /\ hist' = Append(hist, <<v, dt>>)
   /\ LET key == KeyOf(v, dt, Deviations)
          hits == {e \in cache : e.key = key /\ ("cache_nan_dup" \in Deviations => ~IsNan(v))}
          why == KeyOf(v, dt, Deviations \ {"cache_signed_zero"}) \notin {KeyOf(e.v, e.dt, Deviations \ {"cache_signed_zero"}) : e \in hits}
      IN IF hits # {}
         THEN LET e == CHOOSE e \in hits : TRUE IN
              /\ outcome' = Append(outcome, [res |-> "hit", bits |-> e.bits, want |-> Bits(v, dt), why |-> why])
              /\ cache' = cache
         ELSE IF \E e \in cache : e.name = NameOf(v, dt)
         THEN /\ outcome' = Append(outcome, [res |-> "raise", bits |-> <<"x", 0, 1, FALSE>>, want |-> Bits(v, dt), why |-> FALSE])
              /\ cache' = cache        \* ValueError: initializer name already registered
         ELSE /\ outcome' = Append(outcome, [res |-> "miss", bits |-> Bits(v, dt), want |-> Bits(v, dt), why |-> FALSE])
              /\ cache' = cache \cup {[key |-> key, name |-> NameOf(v, dt), bits |-> Bits(v, dt), v |-> v, dt |-> dt]}
Next == \E v \in Values, dt \in Dtypes : (IsNan(v) => dt = "FLOAT") /\ Promote(v, dt)   \* nan has no integer/bool form
Spec == Init /\ [][Next]_vars

CacheSound == \A k \in 1..Len(outcome) : outcome[k].res # "raise" => outcome[k].bits = outcome[k].want
NoRaise == \A k \in 1..Len(outcome) : outcome[k].res # "raise"
\* a departure from CacheSound is explained by the signed-zero deviation
Explained == \A k \in 1..Len(outcome) : (outcome[k].res = "hit" /\ outcome[k].bits # outcome[k].want) => outcome[k].why

AllValues == {"i0", "i1", "im3", "f0", "fn0", "f1", "f25", "bT", "bF", "nan"}
QuickValues == {"i0", "i1", "f0", "fn0", "f25", "bT", "nan"}
NoDevs == {}
\* both deviations were real on the pinned tree and are fixed in /repo
RealDevs == {}
PinnedDevs == {"cache_signed_zero", "cache_nan_dup"}
=============================================================================
