SPECIFICATION Spec
CONSTANTS
  Deviations <- RealDevs
  MaxExtra = 2
  AttrModes <- ModesQuick
  VarNone = FALSE
  ReqVersions <- ReqQuick
INVARIANT SomeRequestedOther
CHECK_DEADLOCK FALSE
