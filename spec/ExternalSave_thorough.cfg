SPECIFICATION Spec
CONSTANTS
  Deviations <- RealDevs
  MaxInits = 4
  Menu <- AllKinds
  Menu3 <- AllKinds
  Faults = TRUE
  Emit = TRUE
INVARIANT TypeOK
INVARIANT Explained
INVARIANT Layout
INVARIANT FailIffFault
INVARIANT EmitCases
CHECK_DEADLOCK FALSE
