SPECIFICATION Spec
CONSTANTS
  Deviations <- AllDevs
  Families <- F_view
  Wide = FALSE
INVARIANT ImplOK
CHECK_DEADLOCK FALSE
