\* design level: no deviations, static catalogue, the quick alphabet, histories of length <= 3
SPECIFICATION Spec
CONSTANTS
  Deviations <- NoDevs
  MaxLen = 3
  Alphabet <- QuickOps
  UseRecorded = FALSE
  EmitLen = 0
INVARIANT HistoryIndependent
INVARIANT GlobalsRestored
CHECK_DEADLOCK FALSE
