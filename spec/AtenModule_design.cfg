SPECIFICATION MSpec
CONSTANTS
  Deviations <- AllDevs
  Families <- AllFamilies
  Wide = FALSE
  MaxSteps = 1
  InDts <- InDtsQ
  InShapes <- InShapesQ
INVARIANT PipelineOK
INVARIANT EnvWellFormed
CHECK_DEADLOCK FALSE
