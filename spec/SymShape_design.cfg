SPECIFICATION Spec
CONSTANTS
  Deviations <- NoDevs
  InputMenu <- MenuQuick
  MaxNodes = 3
  Vals <- ValsStd
  Rich = 1
INVARIANT Sound
CHECK_DEADLOCK FALSE
