SPECIFICATION Spec
CONSTANTS
  Deviations <- NoDevs
  InputMenu <- MenuChain
  MaxNodes = 3
  Vals <- ValsStd
  Rich = 1
  Chain = TRUE
INVARIANT DesignSound
INVARIANT ShapesSound
CHECK_DEADLOCK FALSE
