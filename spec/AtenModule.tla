------------------------------ MODULE AtenModule ------------------------------
(* C08, end-to-end clause: a module built from covered operators and exported with             *)
(* torch.onnx.export(dynamo=True) computes the module's outputs.                                *)
(*                                                                                              *)
(* A behaviour is a module: Init chooses the two graph inputs, every Apply step applies one     *)
(* operator to values of the environment (tensors computed so far) and python arguments, and    *)
(* appends the result.  TLC computes every intermediate value with the ATen semantics of        *)
(* AtenOps.tla (ModAten: PyTorch's type promotion first - torch.result_type over dimensioned    *)
(* tensors, zero-dim tensors and python scalars - then the same-type operator), so a finished   *)
(* behaviour is a program together with its expected outputs.  `tlc -simulate` draws random     *)
(* modules; an exhaustive run over one- and two-step modules checks the design invariant        *)
(* PipelineOK: what the export pipeline does - the type-promotion pass inserts _to_copy casts   *)
(* to the result type, then each node is lowered by its (repaired) torch_lib function - equals  *)
(* ModAten.  Only operator instances on which the implementation model agrees with ATen are     *)
(* used (the deviating ones are judged one by one at operator level), so any difference the     *)
(* harness observes end to end is new.                                                          *)
EXTENDS AtenOps

CONSTANTS MaxSteps,      \* number of operator applications per module
          InDts,         \* element types of the graph inputs
          InShapes       \* shapes of the graph inputs

VARIABLES env,           \* sequence of tensors: the two inputs, then one entry per step
          prog,          \* sequence of [op, args]; tensor arguments are references Ref(i) into env
          cur            \* the operator chosen for the next step ("" none, "done" module finished)
mvars == <<env, prog, cur>>

Ref(i) == Arg("ref", "", <<>>, <<>>, i)
Inst(a, e) == [i \in 1..Len(a) |-> IF a[i].k = "ref" THEN [TA(e[a[i].v]) EXCEPT !.nm = a[i].nm] ELSE a[i]]

-----------------------------------------------------------------------------
(* PyTorch type promotion for the elementwise binary operators *)
TDt(x) == IF x.k = "t" THEN x.s ELSE "none"
BinResultType(x, y) ==
  LET D == {z.s : z \in {w \in {x, y} : w.k = "t" /\ Len(w.shape) > 0}}
      Z == {z.s : z \in {w \in {x, y} : w.k = "t" /\ Len(w.shape) = 0}}
      W == {NumDt(z) : z \in {w \in {x, y} : IsNum(w)}}
  IN ResultType(D, Z, W)
CastArg(x, dt) == IF x.k = "t" THEN [TA(CastT(TOf(x), dt)) EXCEPT !.nm = x.nm] ELSE x
PromotedBin == {"aten::add.Tensor", "aten::sub.Tensor", "aten::mul.Tensor", "aten::maximum", "aten::minimum",
                "aten::eq.Tensor", "aten::lt.Tensor", "aten::ge.Tensor", "aten::ne.Tensor", "aten::floor_divide"}
\* the call after the promotion pass: tensor operands cast to the result type
Promoted(o, a) ==
  IF o \in PromotedBin THEN LET dt == BinResultType(a[1], a[2]) IN <<CastArg(a[1], dt), CastArg(a[2], dt)>> \o SubSeq(a, 3, Len(a))
  ELSE IF o = "aten::where.self" THEN LET dt == BinResultType(a[2], a[3]) IN <<a[1], CastArg(a[2], dt), CastArg(a[3], dt)>>
  ELSE a
\* casting to u8 is only defined from non-negative values, casting floats to integers is exact here (integer valued)
CastOK(t, dt) == dt = "u8" => AllGE0(t)
ModDomain(o, a) ==
  IF o = "aten::_to_copy" THEN CastOK(TOf(a[1]), a[2].s) /\ (a[1].s = "u8" => TRUE)
  ELSE LET b == Promoted(o, a) IN
       /\ \A i \in 1..Len(a) : a[i].k = "t" /\ b[i].s # a[i].s => CastOK(TOf(a[i]), b[i].s)
       /\ o \in PromotedBin => (IsNum(b[2]) => NumCat(b[2]) <= Cat(b[1].s))
       /\ o = "aten::sub.Tensor" => \A i \in {1, 2} : a[i].k = "t" => a[i].s # "bool"        \* ATen refuses `-` on bool tensors before promoting
       /\ InDomain(o, b)
ModAten(o, a) == IF o = "aten::_to_copy" THEN One(CastT(TOf(a[1]), a[2].s)) ELSE Aten(o, Promoted(o, a))
\* the export pipeline: promotion casts, then the function registered for the overload
\* deviations that only show end to end (after the exporter's optimisation passes)
ModDevs == {"any_dim_scalar_input"}
\* any.dim / all.dim build the axes with Reshape(dim, [-1]); once constant folding has turned them into an initializer,
\* shape inference rejects ReduceMax/ReduceMin over axis -1/0 of a rank-0 input
ModGuard(d, o, a) == d = "any_dim_scalar_input" /\ o \in {"aten::any.dim", "aten::all.dim"} /\ Len(a[1].shape) = 0
ModWhy(o, a) == {d \in ModDevs \cap Deviations : ModGuard(d, o, a)}
ModLow(o, a, devs) == IF \E d \in devs : ModGuard(d, o, a) THEN Refused
                      ELSE IF o = "aten::_to_copy" THEN One(CastT(TOf(a[1]), a[2].s)) ELSE Low(o, Promoted(o, a), devs)

-----------------------------------------------------------------------------
(* operator instances offered at a step: references into the environment + python arguments *)
ModOps == {"aten::add.Tensor", "aten::sub.Tensor", "aten::mul.Tensor", "aten::maximum", "aten::minimum", "aten::floor_divide",
           "aten::eq.Tensor", "aten::lt.Tensor", "aten::ge.Tensor", "aten::ne.Tensor", "aten::where.self",
           "aten::neg", "aten::abs", "aten::relu", "aten::logical_not", "aten::_to_copy", "aten::clamp",
           "aten::sum.dim_IntList", "aten::amax", "aten::any.dim", "aten::cumsum", "aten::argmax",
           "aten::unsqueeze", "aten::squeeze.dim", "aten::transpose.int", "aten::flatten.using_ints", "aten::permute", "aten::expand",
           "aten::slice.Tensor", "aten::select.int", "aten::narrow", "aten::flip", "aten::cat", "aten::stack", "aten::tril",
           "aten::matmul", "aten::masked_fill.Scalar", "aten::constant_pad_nd", "aten::repeat"}
Idx(e) == 1..Len(e)
ModMenu(o, e) ==
  LET I == Idx(e) R(i) == Len(e[i].shape) DD(i) == IF R(i) = 0 THEN {0, -1} ELSE DimsOf(R(i)) IN
  CASE o \in {"aten::add.Tensor", "aten::sub.Tensor"} ->
         {<<Ref(i), Ref(j)>> : i \in I, j \in I} \cup {<<Ref(i), s>> : i \in I, s \in {IA(2), FA(3), IA(-1)}}
         \cup {<<Ref(i), Ref(j), KW("alpha", IA(2))>> : i \in I, j \in I}
    [] o \in {"aten::mul.Tensor"} -> {<<Ref(i), Ref(j)>> : i \in I, j \in I} \cup {<<Ref(i), s>> : i \in I, s \in {IA(2), FA(-1)}}
    [] o \in {"aten::maximum", "aten::minimum", "aten::floor_divide", "aten::eq.Tensor", "aten::lt.Tensor", "aten::ge.Tensor", "aten::ne.Tensor", "aten::matmul"} ->
         {<<Ref(i), Ref(j)>> : i \in I, j \in I}
    [] o = "aten::where.self" -> {<<Ref(c), Ref(i), Ref(j)>> : c \in {k \in I : e[k].dt = "bool"}, i \in I, j \in I}
    [] o \in {"aten::neg", "aten::abs", "aten::relu", "aten::logical_not"} -> {<<Ref(i)>> : i \in I}
    [] o = "aten::_to_copy" -> {<<Ref(i), KW("dtype", DA(d))>> : i \in I, d \in {"i64", "i32", "f32", "f64", "bool"}}
    [] o = "aten::clamp" -> {<<Ref(i), lo, hi>> : i \in I, lo \in {IA(-1), NA}, hi \in {IA(2), NA}}
    [] o = "aten::sum.dim_IntList" -> UNION {{<<Ref(i), LA(<<d>>)>> \o kd : d \in DD(i), kd \in {<<>>, <<BA(TRUE)>>}} : i \in I}
                                       \cup {<<Ref(i), NA>> : i \in I}
    [] o = "aten::amax" -> UNION {{<<Ref(i), LA(<<d>>)>> \o kd : d \in DD(i), kd \in {<<>>, <<BA(TRUE)>>}} : i \in I}
    [] o \in {"aten::any.dim", "aten::cumsum", "aten::squeeze.dim"} -> UNION {{<<Ref(i), IA(d)>> : d \in DD(i)} : i \in I}
    [] o = "aten::argmax" -> UNION {{<<Ref(i), IA(d)>> : d \in DD(i)} : i \in I} \cup {<<Ref(i)>> : i \in I}
    [] o = "aten::unsqueeze" -> UNION {{<<Ref(i), IA(d)>> : d \in (-(R(i) + 1))..R(i)} : i \in I}
    [] o = "aten::transpose.int" -> UNION {{<<Ref(i), IA(d0), IA(d1)>> : d0 \in DD(i), d1 \in DD(i)} : i \in I}
    [] o = "aten::flatten.using_ints" -> {<<Ref(i)>> : i \in I} \cup UNION {{<<Ref(i), IA(s), IA(t)>> : s \in DD(i), t \in DD(i)} : i \in I}
    [] o = "aten::permute" -> UNION {{<<Ref(i), LA(p)>> : p \in Perms(R(i))} : i \in I}
    [] o = "aten::expand" -> UNION {{<<Ref(i), LA(<<2>> \o e[i].shape)>>, <<Ref(i), LA(<<2>> \o [k \in 1..R(i) |-> -1])>>} : i \in I}
    [] o = "aten::slice.Tensor" -> UNION {{<<Ref(i), IA(d), s, t>> : d \in DD(i), s \in {NA, IA(1), IA(-2)}, t \in {NA, IA(2), IA(-1)}} : i \in I}
    [] o = "aten::select.int" -> UNION {{<<Ref(i), IA(d), IA(k)>> : d \in DD(i), k \in {0, -1, 1}} : i \in I}
    [] o = "aten::narrow" -> UNION {{<<Ref(i), IA(d), IA(st), IA(1)>> : d \in DD(i), st \in {0, 1}} : i \in I}
    [] o = "aten::flip" -> UNION {{<<Ref(i), LA(<<d>>)>> : d \in DD(i)} : i \in I}
    [] o \in {"aten::cat", "aten::stack"} -> UNION {{<<TL(2), Ref(i), Ref(j), IA(d)>> : d \in {0, -1, 1}} : i \in I, j \in I}
    [] o = "aten::tril" -> {<<Ref(i)>> : i \in I} \cup {<<Ref(i), IA(1)>> : i \in I}
    [] o = "aten::masked_fill.Scalar" -> {<<Ref(i), Ref(m), s>> : i \in I, m \in {k \in I : e[k].dt = "bool"}, s \in {IA(2), FA(0)}}
    [] o = "aten::constant_pad_nd" -> {<<Ref(i), LA(p)>> : i \in I, p \in {<<1, 0>>, <<0, 1, 1, 0>>}}
    [] o = "aten::repeat" -> UNION {{<<Ref(i), LA([k \in 1..R(i) |-> IF k = 1 THEN 2 ELSE 1])>>, <<Ref(i), LA(<<2>> \o [k \in 1..R(i) |-> 1])>>} : i \in I}

-----------------------------------------------------------------------------
Small(t) == /\ Numel(t.shape) <= 24 /\ Len(t.shape) <= 4
            /\ \A k \in 1..Len(t.data) : t.data[k] >= -500 /\ t.data[k] <= 500
\* float16 / huge values are kept out so that integer-valued float arithmetic stays exact
StepOK(o, a) ==
  /\ Registered(o)
  /\ (o # "aten::_to_copy" => \A i \in 1..Len(a) : a[i].k = "t" => TRUE)
  /\ ModDomain(o, a)
  /\ LET res == ModAten(o, a) IN
       /\ res.st = "one" /\ res.vals /\ Small(res.ts[1])
       \* only instances on which the implementation model has no deviation (those are judged at operator level)
       /\ SameRes(ModLow(o, a, Deviations \ ModDevs), res)

MInit == /\ stage = "module" /\ op = "" /\ args = <<>> /\ exp = Refused /\ impl = Refused /\ ideal = Refused /\ why = {}
         /\ \E d1 \in InDts, d2 \in InDts, s1 \in InShapes, s2 \in InShapes : env = <<Mk(d1, s1, 1), Mk(d2, s2, 2)>>
         /\ prog = <<>> /\ cur = ""
\* two-phase step (keeps random simulation cheap): first the operator, then one of its enabled instances;
\* an operator without an enabled instance in the current environment is given back (Retry)
Choose == /\ cur = "" /\ Len(prog) < MaxSteps
          /\ \E o \in ModOps : Registered(o) /\ cur' = o
          /\ UNCHANGED <<vars, env, prog>>
Apply == /\ cur \in ModOps
         /\ \E a \in ModMenu(cur, env) :
               LET inst == Inst(a, env) IN
               /\ StepOK(cur, inst)
               /\ env' = Append(env, ModAten(cur, inst).ts[1])
               /\ prog' = Append(prog, [op |-> cur, args |-> a])
         /\ cur' = ""
         /\ UNCHANGED vars
Retry == /\ cur \in ModOps
         /\ \A a \in ModMenu(cur, env) : ~StepOK(cur, Inst(a, env))
         /\ cur' = "" /\ UNCHANGED <<vars, env, prog>>
Finish == /\ cur = "" /\ Len(prog) = MaxSteps /\ cur' = "done" /\ UNCHANGED <<vars, env, prog>>
MNext == Choose \/ Apply \/ Retry \/ Finish
MSpec == MInit /\ [][MNext]_<<vars, mvars>>

\* design invariant: promotion casts followed by the repaired same-type lowering compute the module's values
PipelineOK == Len(prog) > 0 =>          \* checked in every state, so the newest step suffices
                 LET k == Len(prog) inst == Inst(prog[k].args, env) IN SameRes(ModLow(prog[k].op, inst, {}), One(env[k + 2]))
EnvWellFormed == LET k == Len(env) IN /\ env[k].dt \in AllDts /\ ValidShape(env[k].shape) /\ Len(env[k].data) = Numel(env[k].shape)
                                      /\ \A j \in 1..Len(env[k].data) : ValOK(env[k].dt, env[k].data[j])
Known == UNION {ModWhy(prog[k].op, Inst(prog[k].args, env)) : k \in 1..Len(prog)}
EmitModules == cur = "done" => PrintT("C08MOD " \o ToJson([env |-> env, prog |-> prog, known |-> Known]))
\* vacuity witnesses (must be VIOLATED): a full-length module exists; one with a promoted mixed-type step exists
NoFullModule == cur # "done"
NoMixedStep == ~\E k \in 1..Len(prog) : LET a == Inst(prog[k].args, env) IN
                   prog[k].op \in PromotedBin /\ a[2].k = "t" /\ a[1].s # a[2].s
InDtsQ == {"i64", "f32", "i32", "bool"}
InShapesQ == {<<2, 3>>, <<3>>, <<2, 1, 3>>, <<>>, <<1, 3>>, <<2, 2>>}
InDtsD == {"i64", "f32"}
InShapesD == {<<2, 3>>}
InDtsS == {"i64", "f32"}
InShapesS == {<<2, 3>>, <<3>>}
=============================================================================
