SPECIFICATION Spec
CONSTANTS
  Deviations <- AllDevs
  Fams <- FamsAll
  Modes <- ModesAll
  Big = FALSE
INVARIANT DeviationsExplain
INVARIANT NoSpuriousBlame
INVARIANT ProtocolOK
INVARIANT EmitCases
CHECK_DEADLOCK FALSE
