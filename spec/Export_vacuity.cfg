SPECIFICATION Spec
CONSTANTS
  Deviations <- AllDevs
  MaxItems = 1
  MaxCF = 1
  Thorough = FALSE
INVARIANT NoOkImpl
CONSTRAINT WitnessConstraint
CHECK_DEADLOCK FALSE
