SPECIFICATION Spec
CONSTANTS
  Deviations <- RealDevs
  Apis <- AllApis
  MaxSparse = 1
  MaxDense = 0
INVARIANT NeverSurvives
CHECK_DEADLOCK FALSE
