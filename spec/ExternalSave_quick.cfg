SPECIFICATION Spec
CONSTANTS
  Deviations <- RealDevs
  MaxInits = 3
  Menu <- AllKinds
  Menu3 <- ThirdMenu
  Faults = TRUE
  Emit = TRUE
INVARIANT TypeOK
INVARIANT Explained
INVARIANT Layout
INVARIANT FailIffFault
INVARIANT EmitCases
CHECK_DEADLOCK FALSE
