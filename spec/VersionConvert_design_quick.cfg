SPECIFICATION Spec
CONSTANTS
  Deviations <- NoDevs
  Menu <- MenuAll
  VarMenu <- VarQuick
  VarVersions <- VarVersionsQuick
  HistMenu <- HistAll
  HistVersions <- HistVersionsQuick
  MultiMenu <- MultiQuick
  TripleMenu <- TripleQuick
  MaxItems = 2
  Sources <- AllVersions
  Targets <- AllVersions
  Emitting = FALSE
INVARIANT Prop
CHECK_DEADLOCK FALSE
