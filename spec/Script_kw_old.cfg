SPECIFICATION Spec
CONSTANTS
  Deviations <- KwDevs
  MaxNodes = 3
  MinNodes = 1
  MaxDepth = 1
  MaxBlock = 2
  Kinds <- LoopKinds
  Tiny = FALSE
  Ops = TRUE
  Rich = FALSE
INVARIANT ImplFaithful
CHECK_DEADLOCK FALSE
