SPECIFICATION Spec
CONSTANTS
  Deviations <- RealDevs
  MaxExtra = 3
  AttrModes <- ModesThorough
  VarNone = TRUE
INVARIANT Explained
INVARIANT TrimInv
CHECK_DEADLOCK FALSE
