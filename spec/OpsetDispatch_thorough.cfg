SPECIFICATION Spec
CONSTANTS
  Deviations <- RealDevs
  MaxExtra = 3
  AttrModes <- ModesThorough
  VarNone = TRUE
  ReqVersions <- ReqThorough
INVARIANT Explained
INVARIANT TrimInv
CHECK_DEADLOCK FALSE
