SPECIFICATION Spec
CONSTANTS
  Deviations <- RealDevs
  MaxNodes = 7
  MinNodes = 4
  MaxDepth = 3
  MaxBlock = 3
  Kinds <- AllKinds
  Tiny = FALSE
  Ops = FALSE
  Rich = TRUE
INVARIANT DesignFaithful
INVARIANT DeviationsExplain
INVARIANT Emit
CHECK_DEADLOCK FALSE
