---------------------------- MODULE ExternalSave ----------------------------
(* C20: save_model_with_external_data (onnxscript/_framework_apis/torch_2_5.py) and the          *)
(* ir.save(external_data=...) machinery it drives (onnx_ir/_io.py, onnx_ir/external_data.py),    *)
(* as a state machine over the REAL call sequence, with fault injection on file-system calls.    *)
(*                                                                                               *)
(* A behaviour                                                                                   *)
(*   1. builds a model: a multiset of initializers drawn from the kind table K (AddInit),        *)
(*   2. fixes the call parameters (Call: verbose, pre-existing files),                           *)
(*   3. runs the save step by step, one named action per step of the code:                       *)
(*        Guard, CheckDest, DerivePath, Snapshot, Classify, LoadSmall(i), Materialise(i), Plan,  *)
(*        OpenData, Callback(j), WritePad(j), WriteTensor(j) (three write paths), CloseData,     *)
(*        Swap, Serialize, OpenModel, WriteModel, CloseModel, CloseOnError, Restore.             *)
(*      Every action that performs a file-system call (open / write / flush / close) can         *)
(*      instead FAIL with OSError - at most one fault per behaviour, chosen nondeterministically, *)
(*      so the reachable final states are exactly (model x parameters x fault point k x mode).   *)
(*                                                                                               *)
(* Property (all INVARIANTs over final states):                                                  *)
(*   MemUnchanged  every initializer holds its original tensor object again and that object      *)
(*                 still reads its original bytes - after success, refusal and failure at any k  *)
(*   RoundTrip     after success the model file + data file reproduce every tensor               *)
(*   Refusal       an uninitialized initializer => refused, and a refusal touched nothing        *)
(*                                                                                               *)
(* Deviations (DESIGN 2.5): named places where the code departs from the design.                 *)
(*   "guard_main_graph_only"     the guard looks at model.graph.initializers only; an            *)
(*                               uninitialized initializer of a subgraph is not refused and is   *)
(*                               silently dropped from the saved model                           *)
(*   "dest_backing_overwritten"  a tensor that is already external *in the destination data file**)
(*                               is not refused: the file is overwritten under it (large ones    *)
(*                               are invalidated, small ones silently read other bytes)          *)
(* With Deviations = {} (the design) the invariants hold; with Deviations = RealDevs the module   *)
(* predicts what the code really does, and `Explained` says every departure needs a deviation.   *)
EXTENDS Integers, Sequences, FiniteSets, TLC, Json

CONSTANTS Deviations,   \* subset of AllDevs
          MaxInits,     \* initializers per model
          Menu,         \* kinds that may be drawn for the first two initializers
          Menu3,        \* kinds that may be drawn for the third and later ones
          Faults,       \* BOOLEAN: may file-system calls fail?
          Emit          \* BOOLEAN: print every final state as a JSON case line

VARIABLES inits,    \* the model: sequence of kind names
          par,      \* [verbose, stale]: call parameters
          pc,       \* control point in the code
          slot,     \* slot[i]: what initializer i's const_value currently is: "orig" | "mat" | "new" | "none"
          valid,    \* valid[i]: the ORIGINAL tensor object has not been invalidated
          matd,     \* originals that were copied to memory because they read the destination file
          data,     \* the data file: [exists, segs]; a segment is [id, off, n, w] (w bytes of n written)
          modelf,   \* the model file: "absent" | "old" | "empty" | "partial" | "new"
          openf,    \* which file the code has open for writing: "none" | "data" | "model"
          trace,    \* file-system calls that can fail, in order: <<op, file, nbytes>>
          nfs,      \* their number
          fault,    \* [k, mode]: the call that failed (k = 0: none), "clean" or "partial" (short write)
          plan,     \* [snap, toext, tomem, order, offs, dpath]: what the code computed so far
          work,     \* rest of the loop the code is in
          tph,      \* phase inside the per-tensor write loop
          pos,      \* size of the data file while it is written
          saved,    \* what the serialized model says about initializer i
          cbs,      \* progress callbacks: <<i, offset>>
          failing   \* an OSError is propagating
vars == <<inits, par, pc, slot, valid, matd, data, modelf, openf, trace, nfs, fault, plan, work, tph, pos, saved, cbs, failing>>

AllDevs == {"guard_main_graph_only", "dest_backing_overwritten"}
NoDevs == {}
RealDevs == AllDevs

Threshold == 256            \* ir.save(size_threshold_bytes=256): strictly larger goes external
AlignThreshold == 1048576   \* tensors larger than this are aligned
AlignFactor == 65536

-----------------------------------------------------------------------------
(* the kind table: where the initializer lives, what backs its tensor, its size in bytes and the *)
(* code path Tensor.tofile takes for it                                                          *)
(*   via "np"    ir.Tensor on an ndarray: numpy writes through the file descriptor after flush() *)
(*   via "bytes" TensorProtoTensor (model loaded from a proto): file.write(tobytes())            *)
(*   via "ext"   ExternalTensor elsewhere: open(src,"rb"), read, file.write(chunk)               *)
(*   inp         the initializer is ALSO listed in the inputs of its graph (an overridable default); this
                 makes no difference to anything below: an uninitialized one is refused all the same      *)
Kd(g, back, n, via) == [g |-> g, back |-> back, n |-> n, via |-> via, inp |-> FALSE]
KdIn(g, back, n, via) == [g |-> g, back |-> back, n |-> n, via |-> via, inp |-> TRUE]
K == [ uninit |-> Kd("main", "none", 0, "none"),
       subU   |-> Kd("sub",  "none", 0, "none"),
       uninitIn |-> KdIn("main", "none", 0, "none"),
       subUIn |-> KdIn("sub",  "none", 0, "none"),
       huge   |-> Kd("main", "mem", 1048584, "np"),
       proto  |-> Kd("main", "mem", 512, "bytes"),
       mid    |-> Kd("main", "mem", 400, "np"),
       big    |-> Kd("main", "mem", 264, "np"),
       subB   |-> Kd("sub",  "mem", 320, "np"),
       extB   |-> Kd("main", "other", 400, "ext"),
       dstB   |-> Kd("main", "dest", 288, "ext"),
       \* nam*: external in a file with the SAME NAME as the destination data file but in a DIFFERENT
       \* directory (a model loaded from A/m.onnx and saved as B/m.onnx).  What a tensor is backed by
       \* is its resolved path, not its relative location: these are "other", they must be copied.
       namB   |-> Kd("main", "other", 336, "ext"),
       namS   |-> Kd("main", "other", 24, "ext"),
       edge   |-> Kd("main", "mem", 256, "np"),
       small  |-> Kd("main", "mem", 8, "np"),
       scalar |-> Kd("main", "mem", 8, "np"),
       zero   |-> Kd("main", "mem", 0, "np"),
       extS   |-> Kd("main", "other", 16, "ext"),
       dstS   |-> Kd("main", "dest", 16, "ext") ]
\* models are multisets: kinds are appended in this order (sizes deliberately NOT ascending, so
\* that the size sort of the writer has something to do)
KindOrder == <<"huge", "proto", "uninit", "uninitIn", "mid", "big", "subU", "subUIn", "subB", "extB", "namB", "dstB", "edge",
               "small", "scalar", "zero", "extS", "namS", "dstS">>
Rank(k) == CHOOSE r \in 1..Len(KindOrder) : KindOrder[r] = k
AllKinds == {KindOrder[r] : r \in 1..Len(KindOrder)}
SmallMenu == {"uninit", "subU", "uninitIn", "subUIn", "namB", "namS", "proto", "mid", "subB", "extB", "namB", "dstB", "edge", "extS", "dstS", "huge"}
ThirdMenu == {"huge", "proto", "extB", "namB", "dstB", "extS", "dstS"}

N == Len(inits)
Idx == 1..N
Kind(i) == K[inits[i]]
HasDest(s) == \E i \in 1..Len(s) : K[s[i]].back = "dest"
HasUninit == \E i \in Idx : Kind(i).back = "none"
SeqOf(S) == LET RECURSIVE F(_, _)
                F(i, acc) == IF i > N THEN acc ELSE F(i + 1, IF i \in S THEN Append(acc, i) ELSE acc)
            IN F(1, <<>>)
Range(s) == {s[i] : i \in 1..Len(s)}

\* the pre-existing destination data file: a 16-byte header, then the dest-backed tensors
HdrLen == 16
Data0Segs == LET RECURSIVE F(_, _, _)
                 F(i, off, acc) == IF i > N THEN acc
                                   ELSE IF Kind(i).back = "dest"
                                        THEN F(i + 1, off + Kind(i).n, Append(acc, [id |-> i, off |-> off, n |-> Kind(i).n, w |-> Kind(i).n]))
                                        ELSE F(i + 1, off, acc)
             IN F(1, HdrLen, <<[id |-> -1, off |-> 0, n |-> HdrLen, w |-> HdrLen]>>)
Data0 == IF par.stale THEN [exists |-> TRUE, segs |-> Data0Segs] ELSE [exists |-> FALSE, segs |-> <<>>]
Model0 == IF par.stale THEN "old" ELSE "absent"

Align(p, n) == IF n > AlignThreshold THEN ((p + AlignFactor - 1) \div AlignFactor) * AlignFactor ELSE p
\* stable sort of a sequence of initializer indices by size (sorted(range, key=nbytes))
SortBySize(s) == LET RECURSIVE F(_, _)
                     F(rest, acc) == IF rest = {} THEN acc
                                     ELSE LET m == CHOOSE p \in rest : \A q \in rest :
                                                      \/ Kind(s[p]).n < Kind(s[q]).n
                                                      \/ (Kind(s[p]).n = Kind(s[q]).n /\ p <= q)
                                          IN F(rest \ {m}, Append(acc, s[m]))
                 IN F(1..Len(s), <<>>)
Offsets(order) == LET RECURSIVE F(_, _, _)
                      F(j, p, acc) == IF j > Len(order) THEN acc
                                      ELSE LET o == Align(p, Kind(order[j]).n)
                                           IN F(j + 1, o + Kind(order[j]).n, acc @@ (order[j] :> o))
                  IN F(1, 0, <<>>)

-----------------------------------------------------------------------------
Init == /\ inits = <<>> /\ par = [verbose |-> FALSE, stale |-> FALSE] /\ pc = "build"
        /\ slot = <<>> /\ valid = <<>> /\ matd = {} /\ data = [exists |-> FALSE, segs |-> <<>>]
        /\ modelf = "absent" /\ openf = "none" /\ trace = <<>> /\ nfs = 0
        /\ fault = [k |-> 0, mode |-> "none"]
        /\ plan = [snap |-> <<>>, toext |-> <<>>, tomem |-> <<>>, order |-> <<>>, offs |-> <<>>, dpath |-> "unset"]
        /\ work = <<>> /\ tph = "cb" /\ pos = 0 /\ saved = <<>> /\ cbs = <<>> /\ failing = FALSE

AddInit(k) == /\ pc = "build" /\ N < MaxInits /\ k \in (IF N < 2 THEN Menu ELSE Menu3)
              /\ (IF N = 0 THEN TRUE ELSE Rank(inits[N]) <= Rank(k))
              /\ inits' = Append(inits, k)
              /\ UNCHANGED <<par, pc, slot, valid, matd, data, modelf, openf, trace, nfs, fault, plan, work, tph, pos, saved, cbs, failing>>

Call(v, st) == /\ pc = "build"
               /\ (HasDest(inits) => st)          \* a dest-backed tensor needs the file to exist
               /\ par' = [verbose |-> v, stale |-> st]
               /\ slot' = [i \in Idx |-> IF Kind(i).back = "none" THEN "none" ELSE "orig"]
               /\ valid' = [i \in Idx |-> TRUE]
               /\ data' = IF st THEN [exists |-> TRUE, segs |-> Data0Segs] ELSE [exists |-> FALSE, segs |-> <<>>]
               /\ modelf' = IF st THEN "old" ELSE "absent"
               /\ pc' = "guard"
               /\ UNCHANGED <<inits, matd, openf, trace, nfs, fault, plan, work, tph, pos, saved, cbs, failing>>

-----------------------------------------------------------------------------
(* file-system calls: FsOk / FsFail record the call; exactly one of them is conjoined            *)
FsOk(ev) == trace' = Append(trace, ev) /\ nfs' = nfs + 1 /\ fault' = fault
FsFail(ev, mode) == /\ Faults /\ fault.k = 0
                    /\ trace' = Append(trace, ev) /\ nfs' = nfs + 1
                    /\ fault' = [k |-> nfs + 1, mode |-> mode]
\* where an OSError goes: the enclosing `with open(...)` closes its file, then ir.save's finally runs
Raise == failing' = TRUE /\ pc' = (IF openf = "none" THEN "restore" ELSE "closeerr")

-----------------------------------------------------------------------------
(* torch_2_5.py: the guard - every initializer without const_value, graph input or not *)
Guard == /\ pc = "guard"
         /\ LET scope == IF "guard_main_graph_only" \in Deviations THEN {"main"} ELSE {"main", "sub"}
                bad == {i \in Idx : Kind(i).back = "none" /\ Kind(i).g \in scope}
            IN pc' = IF bad # {} THEN "refused" ELSE "checkdest"
         /\ UNCHANGED <<inits, par, slot, valid, matd, data, modelf, openf, trace, nfs, fault, plan, work, tph, pos, saved, cbs, failing>>

(* design only: a tensor that reads the destination data file cannot be saved over; refuse.      *)
(* The code has no such step (deviation dest_backing_overwritten).                               *)
CheckDest == /\ pc = "checkdest"
             /\ pc' = IF "dest_backing_overwritten" \notin Deviations /\ HasDest(inits) THEN "refused" ELSE "derive"
             /\ UNCHANGED <<inits, par, slot, valid, matd, data, modelf, openf, trace, nfs, fault, plan, work, tph, pos, saved, cbs, failing>>

(* torch_2_5.py: data_path = f"{destination_path.name}.data" - relative, next to the model *)
DerivePath == /\ pc = "derive"
              /\ plan' = [plan EXCEPT !.dpath = "<model name>.data"]
              /\ pc' = "snapshot"
              /\ UNCHANGED <<inits, par, slot, valid, matd, data, modelf, openf, trace, nfs, fault, work, tph, pos, saved, cbs, failing>>

(* _io.save: remember const_value of every initializer of every graph *)
Snapshot == /\ pc = "snapshot"
            /\ plan' = [plan EXCEPT !.snap = slot]
            /\ pc' = "classify"
            /\ UNCHANGED <<inits, par, slot, valid, matd, data, modelf, openf, trace, nfs, fault, work, tph, pos, saved, cbs, failing>>

(* unload_from_model: > threshold goes (or stays) external, external <= threshold is loaded *)
Classify == /\ pc = "classify"
            /\ LET te == SeqOf({i \in Idx : slot[i] # "none" /\ Kind(i).n > Threshold})
                   tm == SeqOf({i \in Idx : slot[i] # "none" /\ Kind(i).n <= Threshold /\ Kind(i).back \in {"other", "dest"}})
               IN plan' = [plan EXCEPT !.toext = te, !.tomem = tm] /\ work' = tm
            /\ pc' = "loadsmall"
            /\ UNCHANGED <<inits, par, slot, valid, matd, data, modelf, openf, trace, nfs, fault, tph, pos, saved, cbs, failing>>

FileOf(i) == IF Kind(i).back = "dest" THEN "data" ELSE "other"

(* convert_tensors_from_external: tensor.numpy().copy(); tensor.release() - mmap needs open() *)
LoadSmall == /\ pc = "loadsmall" /\ work # <<>>
             /\ LET i == Head(work) ev == <<"open_r", FileOf(i), 0>> IN
                \/ FsOk(ev) /\ work' = Tail(work) /\ UNCHANGED <<pc, failing>>
                \/ FsFail(ev, "clean") /\ Raise /\ UNCHANGED work
             /\ UNCHANGED <<inits, par, slot, valid, matd, data, modelf, openf, plan, tph, pos, saved, cbs>>
LoadSmallDone == /\ pc = "loadsmall" /\ work = <<>>
                 /\ work' = (IF data.exists THEN SelectSeq(plan.toext, LAMBDA i : Kind(i).back = "dest") ELSE <<>>)
                 /\ pc' = "materialise"
                 /\ UNCHANGED <<inits, par, slot, valid, matd, data, modelf, openf, trace, nfs, fault, plan, tph, pos, saved, cbs, failing>>

(* _materialize_external_tensors_for_destination_paths: copy to memory, then invalidate the original *)
Materialise == /\ pc = "materialise" /\ work # <<>>
               /\ LET i == Head(work) ev == <<"open_r", "data", 0>> IN
                  \/ /\ FsOk(ev) /\ work' = Tail(work)
                     /\ matd' = matd \cup {i} /\ valid' = [valid EXCEPT ![i] = FALSE]
                     /\ UNCHANGED <<pc, failing>>
                  \/ FsFail(ev, "clean") /\ Raise /\ UNCHANGED <<work, matd, valid>>
               /\ UNCHANGED <<inits, par, slot, data, modelf, openf, plan, tph, pos, saved, cbs>>

(* convert_tensors_to_external: size order, offsets (with alignment) fixed before anything is written *)
Plan == /\ pc = "materialise" /\ work = <<>>
        /\ LET order == SortBySize(plan.toext)
           IN plan' = [plan EXCEPT !.order = order, !.offs = Offsets(order)]
        /\ pc' = "opendata"
        /\ UNCHANGED <<inits, par, slot, valid, matd, data, modelf, openf, trace, nfs, fault, work, tph, pos, saved, cbs, failing>>

(* _write_external_data: with open(file_path, "wb") - truncates whatever was there *)
OpenData == /\ pc = "opendata"
            /\ LET ev == <<"open_w", "data", 0>> IN
               \/ /\ FsOk(ev) /\ data' = [exists |-> TRUE, segs |-> <<>>] /\ openf' = "data"
                  /\ work' = plan.order /\ tph' = "cb" /\ pos' = 0 /\ pc' = "tensor" /\ UNCHANGED failing
               \/ FsFail(ev, "clean") /\ Raise /\ UNCHANGED <<data, openf, work, tph, pos>>
            /\ UNCHANGED <<inits, par, slot, valid, matd, modelf, plan, saved, cbs>>

Seg(id, off, n, w) == [id |-> id, off |-> off, n |-> n, w |-> w]
ViaOf(j) == IF j \in matd THEN "np" ELSE Kind(j).via

(* the progress callback of torch_2_5.py (verbose=True and tqdm present) *)
Callback == /\ pc = "tensor" /\ work # <<>> /\ tph = "cb"
            /\ cbs' = (IF par.verbose THEN Append(cbs, <<Head(work), plan.offs[Head(work)]>>) ELSE cbs)
            /\ tph' = "pad"
            /\ UNCHANGED <<inits, par, pc, slot, valid, matd, data, modelf, openf, trace, nfs, fault, plan, work, pos, saved, failing>>

(* pad the file up to the aligned offset *)
WritePad == /\ pc = "tensor" /\ work # <<>> /\ tph = "pad"
            /\ LET j == Head(work) gap == plan.offs[j] - pos ev == <<"write", "data", gap>> IN
               IF gap <= 0 THEN tph' = "body" /\ UNCHANGED <<data, pos, trace, nfs, fault, pc, failing>>
               ELSE \/ /\ FsOk(ev) /\ data' = [data EXCEPT !.segs = Append(@, Seg(0, pos, gap, gap))]
                       /\ pos' = plan.offs[j] /\ tph' = "body" /\ UNCHANGED <<pc, failing>>
                    \/ FsFail(ev, "clean") /\ Raise /\ UNCHANGED <<data, pos, tph>>
                    \/ /\ FsFail(ev, "partial") /\ Raise
                       /\ data' = [data EXCEPT !.segs = Append(@, Seg(0, pos, gap, gap \div 2))] /\ UNCHANGED <<pos, tph>>
            /\ UNCHANGED <<inits, par, slot, valid, matd, modelf, openf, plan, work, saved, cbs>>

(* tensor.tofile(data_file): three code paths *)
WriteTensor == /\ pc = "tensor" /\ work # <<>> /\ tph \in {"body", "body2"}
               /\ LET j == Head(work) n == Kind(j).n
                      done == /\ data' = [data EXCEPT !.segs = Append(@, Seg(j, pos, n, n))]
                              /\ pos' = pos + n /\ work' = Tail(work) /\ tph' = "cb" /\ UNCHANGED <<pc, failing>>
                      short == data' = [data EXCEPT !.segs = Append(@, Seg(j, pos, n, n \div 2))] /\ UNCHANGED <<pos, work, tph>>
                      none == UNCHANGED <<data, pos, work, tph>>
                  IN CASE ViaOf(j) = "np" ->          \* numpy: flush(), then write(2) on the descriptor
                            ( \/ (FsOk(<<"flush", "data", 0>>) /\ done)
                              \/ (FsFail(<<"flush", "data", 0>>, "clean") /\ Raise /\ none) )
                       [] ViaOf(j) = "bytes" ->
                            ( \/ (FsOk(<<"write", "data", n>>) /\ done)
                              \/ (FsFail(<<"write", "data", n>>, "clean") /\ Raise /\ none)
                              \/ (FsFail(<<"write", "data", n>>, "partial") /\ Raise /\ short) )
                       [] ViaOf(j) = "ext" /\ tph = "body" ->   \* open the source file
                            ( \/ (FsOk(<<"open_r", "other", 0>>) /\ tph' = "body2" /\ UNCHANGED <<data, pos, work, pc, failing>>)
                              \/ (FsFail(<<"open_r", "other", 0>>, "clean") /\ Raise /\ none) )
                       [] ViaOf(j) = "ext" /\ tph = "body2" ->
                            ( \/ (FsOk(<<"write", "data", n>>) /\ done)
                              \/ (FsFail(<<"write", "data", n>>, "clean") /\ Raise /\ none)
                              \/ (FsFail(<<"write", "data", n>>, "partial") /\ Raise /\ short) )
               /\ UNCHANGED <<inits, par, slot, valid, matd, modelf, openf, plan, saved, cbs>>

CloseData == /\ pc = "tensor" /\ work = <<>>
             /\ LET ev == <<"close", "data", 0>> IN
                \/ FsOk(ev) /\ openf' = "none" /\ pc' = "swap" /\ UNCHANGED failing
                \/ FsFail(ev, "clean") /\ openf' = "none" /\ failing' = TRUE /\ pc' = "restore"
             /\ UNCHANGED <<inits, par, slot, valid, matd, data, modelf, plan, work, tph, pos, saved, cbs>>

(* an OSError inside `with open(...) as f:` - the context manager closes f (this call cannot fail again) *)
CloseOnError == /\ pc = "closeerr"
                /\ trace' = Append(trace, <<"close", openf, 0>>) /\ nfs' = nfs + 1
                /\ openf' = "none" /\ pc' = "restore"
                /\ UNCHANGED <<inits, par, slot, valid, matd, data, modelf, fault, plan, work, tph, pos, saved, cbs, failing>>

(* unload_from_model, tail: the model now holds the new external tensors / the loaded copies *)
Swap == /\ pc = "swap"
        /\ slot' = [i \in Idx |-> IF i \in Range(plan.toext) THEN "new" ELSE IF i \in Range(plan.tomem) THEN "mat" ELSE slot[i]]
        /\ pc' = "serialize"
        /\ UNCHANGED <<inits, par, valid, matd, data, modelf, openf, trace, nfs, fault, plan, work, tph, pos, saved, cbs, failing>>

(* serde.serialize_model: an initializer without const_value is skipped *)
Serialize == /\ pc = "serialize"
             /\ saved' = [i \in Idx |-> CASE slot[i] = "none" -> [kind |-> "missing", off |-> 0, n |-> 0]
                                          [] slot[i] = "new" -> [kind |-> "ext", off |-> plan.offs[i], n |-> Kind(i).n]
                                          [] OTHER -> [kind |-> "inline", off |-> 0, n |-> Kind(i).n]]
             /\ pc' = "openmodel"
             /\ UNCHANGED <<inits, par, slot, valid, matd, data, modelf, openf, trace, nfs, fault, plan, work, tph, pos, cbs, failing>>

(* onnx.save: with open(path, "wb") as f: f.write(bytes) *)
OpenModel == /\ pc = "openmodel"
             /\ LET ev == <<"open_w", "model", 0>> IN
                \/ FsOk(ev) /\ modelf' = "empty" /\ openf' = "model" /\ pc' = "writemodel" /\ UNCHANGED failing
                \/ FsFail(ev, "clean") /\ Raise /\ UNCHANGED <<modelf, openf>>
             /\ UNCHANGED <<inits, par, slot, valid, matd, data, plan, work, tph, pos, saved, cbs>>
WriteModel == /\ pc = "writemodel"
              /\ LET ev == <<"write", "model", -1>> IN
                 \/ FsOk(ev) /\ modelf' = "new" /\ pc' = "closemodel" /\ UNCHANGED failing
                 \/ FsFail(ev, "clean") /\ Raise /\ UNCHANGED modelf
                 \/ FsFail(ev, "partial") /\ Raise /\ modelf' = "partial"
              /\ UNCHANGED <<inits, par, slot, valid, matd, data, openf, plan, work, tph, pos, saved, cbs>>
CloseModel == /\ pc = "closemodel"
              /\ LET ev == <<"close", "model", 0>> IN
                 \/ FsOk(ev) /\ UNCHANGED failing
                 \/ FsFail(ev, "clean") /\ failing' = TRUE
              /\ openf' = "none" /\ pc' = "restore"
              /\ UNCHANGED <<inits, par, slot, valid, matd, data, modelf, plan, work, tph, pos, saved, cbs>>

(* _io.save: finally - put every remembered const_value back *)
Restore == /\ pc = "restore"
           /\ slot' = plan.snap
           /\ pc' = IF failing THEN "failed" ELSE "done"
           /\ UNCHANGED <<inits, par, valid, matd, data, modelf, openf, trace, nfs, fault, plan, work, tph, pos, saved, cbs, failing>>

Next == \/ \E k \in Menu \cup Menu3 : AddInit(k)
        \/ \E v \in BOOLEAN, st \in BOOLEAN : Call(v, st)
        \/ Guard \/ CheckDest \/ DerivePath \/ Snapshot \/ Classify \/ LoadSmall \/ LoadSmallDone
        \/ Materialise \/ Plan \/ OpenData \/ Callback \/ WritePad \/ WriteTensor \/ CloseData
        \/ CloseOnError \/ Swap \/ Serialize \/ OpenModel \/ WriteModel \/ CloseModel \/ Restore
Spec == Init /\ [][Next]_vars

-----------------------------------------------------------------------------
Final == pc \in {"done", "failed", "refused"}
Outcome == CASE pc = "done" -> "ok" [] pc = "failed" -> "oserror" [] pc = "refused" -> "refused" [] OTHER -> "running"

\* what a reader of initializer i's ORIGINAL tensor object sees now
After(i) == IF slot[i] # (IF Kind(i).back = "none" THEN "none" ELSE "orig") THEN "replaced"
            ELSE IF Kind(i).back # "dest" THEN "same"
            ELSE IF ~valid[i] THEN "invalid"
            ELSE IF data # Data0 THEN "stale"
            ELSE "same"

MemUnchanged == Final => \A i \in Idx : After(i) = "same"

Reloads(i) == \/ saved[i].kind = "inline"
              \/ /\ saved[i].kind = "ext"
                 /\ \E s \in Range(data.segs) : s.id = i /\ s.off = saved[i].off /\ s.n = Kind(i).n /\ s.w = s.n
RoundTrip == pc = "done" => modelf = "new" /\ data.exists /\ \A i \in Idx : Reloads(i)

Refusal == /\ (Final /\ HasUninit) => pc = "refused"
           /\ pc = "refused" => nfs = 0 /\ data = Data0 /\ modelf = Model0 /\ \A i \in Idx : After(i) = "same"

\* documented layout rules of the written files
Layout == pc = "done" =>
            /\ \A i \in Idx : slot[i] # "none" => (saved[i].kind = "ext" <=> Kind(i).n > Threshold)
            /\ \A a \in 1..(Len(data.segs) - 1) : data.segs[a].off + data.segs[a].n = data.segs[a + 1].off
            /\ \A a \in 1..Len(data.segs) : (data.segs[a].id > 0 /\ data.segs[a].n > AlignThreshold) => data.segs[a].off % AlignFactor = 0

\* a failed save was failed by the injected fault, and nothing else fails
FailIffFault == (pc = "failed" <=> (Final /\ fault.k # 0)) /\ (pc = "failed" => fault.k \in 1..nfs)

\* implementation model: every departure from the property is one of the named deviations
Explained == /\ Final => \A i \in Idx : After(i) # "same" => (Kind(i).back = "dest" /\ "dest_backing_overwritten" \in Deviations)
             /\ pc = "done" => \A i \in Idx : ~Reloads(i) => (Kind(i).back = "none" /\ Kind(i).g = "sub" /\ "guard_main_graph_only" \in Deviations)
             /\ (Final /\ HasUninit /\ pc # "refused") => (\A i \in Idx : Kind(i).back = "none" => Kind(i).g = "sub") /\ "guard_main_graph_only" \in Deviations

TypeOK == /\ pc \in {"build", "guard", "checkdest", "derive", "snapshot", "classify", "loadsmall", "materialise", "opendata",
                     "tensor", "closeerr", "swap", "serialize", "openmodel", "writemodel", "closemodel", "restore",
                     "done", "failed", "refused"}
          /\ openf \in {"none", "data", "model"} /\ nfs = Len(trace) /\ fault.k <= nfs
          /\ (Final => openf = "none")

-----------------------------------------------------------------------------
(* witnesses: each of these is expected to be VIOLATED (reachability of the interesting regions) *)
NoPartialFailure == ~(pc = "failed" /\ fault.mode = "partial")
NoSuccessWithExternal == ~(pc = "done" /\ \E i \in Idx : saved[i].kind = "ext")
NoRefusal == pc # "refused"
NoPadding == ~(pc = "done" /\ \E a \in 1..Len(data.segs) : data.segs[a].id = 0)
NoFailureAfterInvalidate == ~(pc = "failed" /\ \E i \in Idx : ~valid[i])

-----------------------------------------------------------------------------
(* case emission for the conformance harness: one JSON line per final state *)
CaseRec == [ inits |-> inits, verbose |-> par.verbose, stale |-> par.stale, k |-> fault.k, mode |-> fault.mode,
             outcome |-> Outcome, trace |-> trace, after |-> [i \in Idx |-> After(i)],
             segs |-> data.segs, dataExists |-> data.exists, modelf |-> modelf,
             saved |-> saved, cbs |-> cbs, sizes |-> [i \in Idx |-> Kind(i).n],
             roundtrip |-> (pc = "done" => \A i \in Idx : Reloads(i)) ]
EmitCases == (Emit /\ Final) => PrintT(<<"CASE", ToJson(CaseRec)>>)
=============================================================================
