SPECIFICATION Spec
CONSTANTS
  Deviations <- AllDevs
  MaxItems = 1
  MaxCF = 1
  Thorough = FALSE
INVARIANT DesignOK
INVARIANT DeviationsExplain
INVARIANT StepwiseAgrees
INVARIANT EmitCases
CHECK_DEADLOCK FALSE
