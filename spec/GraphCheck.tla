----------------------------- MODULE GraphCheck -----------------------------
(* Direction B on artefacts: every proto emitted by the real code (serialised by the harness to  *)
(* the abstract JSON form) is judged by Graph!WF.  One TLC state per proto; the verdicts are      *)
(* printed as <<"WF", id, ssa, scoped, outputs, imports>>.                                        *)
EXTENDS Graph, TLC, Json, IOUtils
Protos == JsonDeserialize(IOEnv.GRAPHS_FILE)
VARIABLES k, verdict
Init == k \in 1..Len(Protos) /\ verdict = WFWhy(Protos[k].graph, Protos[k].imports)
Next == UNCHANGED <<k, verdict>>
Spec == Init /\ [][Next]_<<k, verdict>>
Report == PrintT(<<"WF", Protos[k].id, verdict[1], verdict[2], verdict[3], verdict[4]>>)
=============================================================================
