SPECIFICATION Spec
CONSTANTS
  Deviations <- AllDevs
  Big = FALSE
INVARIANT NeverRaises
CHECK_DEADLOCK FALSE
