SPECIFICATION Spec
CONSTANTS
  Deviations <- AllDevs
  Ranks <- R3
  Big = FALSE
INVARIANT NeverRaises
CHECK_DEADLOCK FALSE
