SPECIFICATION Spec
CONSTANTS
  Deviations <- AllDevs
  Families <- AllFamilies
  Menu = "quick"
INVARIANT Sound
INVARIANT NoFireOnUnknown
INVARIANT DeviationsExplain
INVARIANT DesignRefines
INVARIANT EmitCases
CHECK_DEADLOCK FALSE
