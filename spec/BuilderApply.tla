---------------------------- MODULE BuilderApply ----------------------------
(* C18 direction B - what ONE root GraphBuilder (and the sub-builders of its subgraphs) may do,    *)
(* as an operational model of onnxscript/_internal/builder.py (GraphBuilder.__init__, input,       *)
(* add_output, initializer, _get_or_create_constant, _add_node, push_module / pop_module,          *)
(* build_graph, call_inline) and onnxscript/nn/_parameter.py (Parameter._realize).                 *)
(*                                                                                               *)
(* State: per builder its module scope stack, the stack it inherited, its parent and its graph;    *)
(* per graph the values defined in it and the names of its nodes; the initializers of the root     *)
(* graph by name; the constant cache (key -> value) with the literal each key was created for.     *)
(* The hooks (ONNXSCRIPT_VERIF=1) record one event per state change, after the change.  Each       *)
(* event is EXECUTED on the abstract state under the clauses below; a clause that fails rejects    *)
(* the trace at that event and names itself.                                                       *)
(*   - names: an initializer / parameter name is the dotted path of the scope it is created in,    *)
(*     registered once, in the root graph; node names and generated value names are unique,       *)
(*   - the scope metadata of a node is the scope stack at the time of its creation,                *)
(*   - constant cache: a hit exactly when the key is cached, it returns the cached value, a key    *)
(*     stands for one literal (type, text, element type), a miss registers a new initializer,      *)
(*   - wiring: a node reads only values visible in its graph (own graph, enclosing builders'       *)
(*     graphs, root initializers); subgraph attributes are graphs whose builder has finished.      *)
EXTENDS Naturals, Sequences, FiniteSets, TLC

VARIABLES stacks,    \* builder -> sequence of <<module name, class name>>
          inherited, \* builder -> the stack it started with (sub-builders copy their parent's)
          par,       \* builder -> parent builder ("" for the root)
          gOf,       \* builder -> graph token
          defs,      \* graph -> set of value tokens defined in it (inputs, node outputs)
          nnames,    \* graph -> set of node names
          vnames,    \* graph -> set of value names given at creation
          ncount,    \* graph -> number of nodes appended
          inits,     \* initializer name -> value token (root graph)
          cache,     \* constant-cache key -> value token
          keylit,    \* constant-cache key -> <<python type, text, element type>>
          ended,     \* graphs whose build_graph returned
          nodes,     \* node tokens seen
          inl,       \* builders inside call_inline (nodes cloned from a function body keep the metadata of their origin)
          stats,     \* <<#nodes, #constants, #initializers+parameters, #scopes pushed>>
          rerr
bvars == <<stacks, inherited, par, gOf, defs, nnames, vnames, ncount, inits, cache, keylit, ended, nodes, inl, stats, rerr>>

SeqSet(s) == {s[i] : i \in 1..Len(s)}
Range(f) == {f[x] : x \in DOMAIN f}
Upd(f, k, v) == [x \in DOMAIN f \cup {k} |-> IF x = k THEN v ELSE f[x]]
NoDup(s) == \A i, j \in 1..Len(s) : i # j => s[i] # s[j]

\* "a.b.c" of the non-empty module names of a scope stack (GraphBuilder._scope_name_parts)
RECURSIVE JoinNames(_, _)
JoinNames(st, sep) ==
  IF st = <<>> THEN ""
  ELSE LET rest == JoinNames(Tail(st), sep) h == Head(st)[1] IN
       IF h = "" THEN rest ELSE IF rest = "" THEN h ELSE h \o sep \o rest
DottedPath(st, nm) == LET p == JoinNames(st, ".") IN IF p = "" THEN nm ELSE p \o "." \o nm
SlashPath(st, nm) == LET p == JoinNames(st, "/") IN IF p = "" THEN nm ELSE p \o "/" \o nm
ValuePath(st, nm) == LET p == JoinNames(st, ".") IN IF p = "" THEN "v_" \o nm ELSE "v_" \o p \o "." \o nm
\* GraphBuilder._build_namespace: "name: Class" joined by "/", entries with neither name nor class left out
RECURSIVE Namespace(_)
Namespace(st) ==
  IF st = <<>> THEN ""
  ELSE LET h == Head(st) rest == Namespace(Tail(st))
           part == IF h[2] # "" THEN h[1] \o ": " \o h[2] ELSE h[1] IN
       IF h[1] = "" /\ h[2] = "" THEN rest ELSE IF rest = "" THEN part ELSE part \o "/" \o rest
Names(st) == [i \in 1..Len(st) |-> st[i][1]]
Classes(st) == [i \in 1..Len(st) |-> st[i][2]]

RECURSIVE Ancestors(_)
Ancestors(b) == IF b \notin DOMAIN par \/ par[b] = "" \/ par[b] \notin DOMAIN par THEN {b} ELSE {b} \cup Ancestors(par[b])
RootOf(b) == CHOOSE r \in Ancestors(b) : par[r] = ""
Visible(b) == UNION {defs[gOf[a]] : a \in Ancestors(b)} \cup Range(inits)
AllDefs == UNION {defs[g] : g \in DOMAIN defs}
Known(b) == b \in DOMAIN gOf
\* a value the trace never saw defined (created by the caller and handed in, as tests do) is taken as an outer input; a value
\* the trace saw defined must be visible from the builder that uses it
VisibleOrForeign(b, v) == v \in AllDefs => v \in Visible(b)

BInit(root, graph, inputs, input_names, init_pairs, node_triples) ==
  /\ stacks = (root :> <<>>) /\ inherited = (root :> <<>>) /\ par = (root :> "") /\ gOf = (root :> graph)
  /\ defs = (graph :> (SeqSet(inputs) \cup UNION {SeqSet(node_triples[i][3]) : i \in 1..Len(node_triples)}))
  /\ nnames = (graph :> {node_triples[i][2] : i \in 1..Len(node_triples)})
  /\ vnames = (graph :> SeqSet(input_names))
  /\ ncount = (graph :> Len(node_triples))
  /\ inits = [n \in {init_pairs[i][1] : i \in 1..Len(init_pairs)} |-> init_pairs[CHOOSE i \in 1..Len(init_pairs) : init_pairs[i][1] = n][2]]
  /\ cache = [k \in {} |-> ""] /\ keylit = [k \in {} |-> <<>>]
  /\ ended = {} /\ nodes = {node_triples[i][1] : i \in 1..Len(node_triples)} /\ inl = {} /\ stats = <<0, 0, 0, 0>> /\ rerr = <<>>

Keep == UNCHANGED <<inl, stacks, inherited, par, gOf, defs, nnames, vnames, ncount, inits, cache, keylit, ended, nodes, stats>>

-----------------------------------------------------------------------------
ChildClauses(b, parent, graph, inputs) ==
  <<<<"child_parent_known", Known(parent)>>,
    <<"child_builder_fresh", ~Known(b)>>,
    <<"child_graph_fresh", graph \notin DOMAIN defs>>,
    <<"child_inputs_fresh", SeqSet(inputs) \cap AllDefs = {}>>>>
DoChild(b, parent, graph, inputs, input_names, node_triples) ==
  /\ stacks' = Upd(stacks, b, <<>>) /\ inherited' = Upd(inherited, b, <<>>) /\ par' = Upd(par, b, parent) /\ gOf' = Upd(gOf, b, graph)
  /\ defs' = Upd(defs, graph, SeqSet(inputs) \cup UNION {SeqSet(node_triples[i][3]) : i \in 1..Len(node_triples)})
  /\ nnames' = Upd(nnames, graph, {node_triples[i][2] : i \in 1..Len(node_triples)})
  /\ vnames' = Upd(vnames, graph, SeqSet(input_names)) /\ ncount' = Upd(ncount, graph, Len(node_triples))
  /\ UNCHANGED <<inl, inits, cache, keylit, ended, nodes, stats>>

InheritClauses(b, st) ==
  <<<<"inherit_builder_known", Known(b) /\ par[b] # "">>,
    <<"inherit_copies_the_parent_stack", (Known(b) /\ par[b] \in DOMAIN stacks) => st = stacks[par[b]]>>>>
DoInherit(b, st) == /\ stacks' = Upd(stacks, b, st) /\ inherited' = Upd(inherited, b, st)
                    /\ UNCHANGED <<inl, par, gOf, defs, nnames, vnames, ncount, inits, cache, keylit, ended, nodes, stats>>

PushClauses(b) == <<<<"push_builder_known", Known(b)>>>>
DoPush(b, nm, cls) == /\ stacks' = Upd(stacks, b, Append(stacks[b], <<nm, cls>>)) /\ stats' = [stats EXCEPT ![4] = @ + 1]
                      /\ UNCHANGED <<inl, inherited, par, gOf, defs, nnames, vnames, ncount, inits, cache, keylit, ended, nodes>>
PopClauses(b) == <<<<"pop_builder_known", Known(b)>>, <<"pop_stack_not_empty", Known(b) => stacks[b] # <<>> >>>>
DoPop(b) == /\ stacks' = Upd(stacks, b, SubSeq(stacks[b], 1, Len(stacks[b]) - 1))
            /\ UNCHANGED <<inl, inherited, par, gOf, defs, nnames, vnames, ncount, inits, cache, keylit, ended, nodes, stats>>

InputClauses(b, graph, v, nm) ==
  <<<<"input_builder_known", Known(b)>>,
    <<"input_goes_to_the_builders_graph", Known(b) => graph = gOf[b]>>,
    <<"input_value_fresh", v \notin AllDefs>>,
    <<"input_name_unique_in_graph", (Known(b) /\ graph \in DOMAIN vnames) => nm \notin vnames[graph]>>>>
DoInput(b, graph, v, nm, dflt) ==
  /\ defs' = Upd(defs, graph, defs[graph] \cup {v}) /\ vnames' = Upd(vnames, graph, vnames[graph] \cup {nm})
  /\ inits' = IF dflt /\ par[b] = "" THEN Upd(inits, nm, v) ELSE inits
  /\ UNCHANGED <<inl, stacks, inherited, par, gOf, nnames, ncount, cache, keylit, ended, nodes, stats>>

\* GraphBuilder.initializer (also the path constants take, with qualify = FALSE)
InitClauses(b, requested, nm, qualify, v, existed, graph) ==
  <<<<"init_builder_known", Known(b)>>,
    <<"init_registered_in_the_root_graph", Known(b) => graph = gOf[RootOf(b)]>>,
    <<"init_name_is_the_dotted_path_of_the_calling_scope", Known(b) => nm = IF qualify THEN DottedPath(stacks[b], requested) ELSE requested>>,
    <<"init_existed_flag_is_truthful", existed <=> nm \in DOMAIN inits>>,
    <<"init_name_registered_once", nm \notin DOMAIN inits>>,
    <<"init_value_fresh", v \notin Range(inits) /\ v \notin AllDefs>>>>
DoInit(nm, v) == /\ inits' = Upd(inits, nm, v) /\ stats' = [stats EXCEPT ![3] = @ + 1]
                 /\ UNCHANGED <<inl, stacks, inherited, par, gOf, defs, nnames, vnames, ncount, cache, keylit, ended, nodes>>

\* Parameter._realize: the name is qualified with the ROOT builder's scope stack (known finding param_subgraph_scope when
\* that differs from the scope of the calling sub-builder); direct assignment overwrites an initializer of the same name
ParamClauses(b, requested, nm, v, existed, graph) ==
  <<<<"param_builder_known", Known(b)>>,
    <<"param_registered_in_the_root_graph", Known(b) => graph = gOf[RootOf(b)]>>,
    <<"param_name_is_a_dotted_scope_path", Known(b) => nm \in {DottedPath(stacks[b], requested), DottedPath(stacks[RootOf(b)], requested)}>>,
    <<"param_name_is_the_dotted_path_of_the_calling_scope", Known(b) => nm = DottedPath(stacks[b], requested)>>,
    <<"param_existed_flag_is_truthful", existed <=> nm \in DOMAIN inits>>,
    <<"param_name_registered_once", nm \notin DOMAIN inits>>,
    <<"param_appears_once", v \notin Range(inits)>>>>

\* _get_or_create_constant
ConstClauses(b, key, lit, hit, v, nm, size) ==
  <<<<"const_builder_known", Known(b)>>,
    <<"const_hit_exactly_when_the_key_is_cached", hit <=> key \in DOMAIN cache>>,
    <<"const_hit_returns_the_cached_value", (hit /\ key \in DOMAIN cache) => cache[key] = v>>,
    <<"const_key_stands_for_one_literal", key \in DOMAIN keylit => keylit[key] = lit>>,
    <<"const_miss_registers_a_new_initializer", ~hit => (nm \in DOMAIN inits /\ inits[nm] = v)>>,
    <<"const_miss_value_not_cached_under_another_key", ~hit => v \notin Range(cache)>>,
    <<"const_cache_size", size = Cardinality(DOMAIN cache \cup {key})>>>>
DoConst(key, lit, v) == /\ cache' = Upd(cache, key, v) /\ keylit' = Upd(keylit, key, lit) /\ stats' = [stats EXCEPT ![2] = @ + 1]
                        /\ UNCHANGED <<inl, stacks, inherited, par, gOf, defs, nnames, vnames, ncount, inits, ended, nodes>>

OtherGraphs(g) == DOMAIN nnames \ {g}
NodeClauses(b, graph, id, nm, ins, outs, out_names, annotated, scopes, classes, namespace, count, subs) ==
  <<<<"node_builder_known", Known(b)>>,
    <<"node_goes_to_the_builders_graph", Known(b) => graph = gOf[b]>>,
    <<"node_fresh", id \notin nodes>>,
    <<"node_outputs_fresh", SeqSet(outs) \cap (AllDefs \cup Range(inits)) = {} /\ NoDup(outs)>>,
    <<"node_inputs_visible", Known(b) => \A i \in 1..Len(ins) : ins[i] = "" \/ VisibleOrForeign(b, ins[i])>>,
    <<"node_count_is_its_position", (Known(b) /\ graph \in DOMAIN ncount) => count = ncount[graph] + 1>>,
    <<"node_name_unique_in_graph", (graph \in DOMAIN nnames /\ nm # "") => nm \notin nnames[graph]>>,
    <<"node_name_unique_across_graphs", nm # "" => \A g \in OtherGraphs(graph) : nm \notin nnames[g]>>,
    <<"node_output_names_unique_in_graph", graph \in DOMAIN vnames => (\A i \in 1..Len(out_names) : out_names[i] = "" \/ out_names[i] \notin vnames[graph]) /\ NoDup(out_names)>>,
    <<"node_output_names_unique_across_graphs", \A g \in DOMAIN vnames \ {graph} : \A i \in 1..Len(out_names) : out_names[i] = "" \/ out_names[i] \notin vnames[g]>>,
    <<"node_scope_names_are_the_scope_stack", (Known(b) /\ annotated /\ b \notin inl) => scopes = Names(stacks[b])>>,
    <<"node_class_hierarchy_is_the_scope_stack", (Known(b) /\ annotated /\ b \notin inl) => classes = Classes(stacks[b])>>,
    <<"node_namespace_is_the_scope_stack", (Known(b) /\ annotated /\ b \notin inl) => namespace = Namespace(stacks[b])>>,
    <<"node_subgraphs_are_finished", \A i \in 1..Len(subs) : subs[i] \in DOMAIN defs => subs[i] \in ended>>>>
DoNode(graph, id, nm, outs, out_names) ==
  /\ defs' = Upd(defs, graph, defs[graph] \cup SeqSet(outs)) /\ nnames' = Upd(nnames, graph, nnames[graph] \cup {nm})
  /\ vnames' = Upd(vnames, graph, vnames[graph] \cup (SeqSet(out_names) \ {""})) /\ ncount' = Upd(ncount, graph, ncount[graph] + 1)
  /\ nodes' = nodes \cup {id} /\ stats' = [stats EXCEPT ![1] = @ + 1]
  /\ UNCHANGED <<inl, stacks, inherited, par, gOf, inits, cache, keylit, ended>>

EndGraphClauses(b, graph, outs, st) ==
  <<<<"endgraph_builder_known", Known(b)>>,
    <<"endgraph_is_the_builders_graph", Known(b) => graph = gOf[b]>>,
    <<"endgraph_outputs_visible", Known(b) => \A i \in 1..Len(outs) : VisibleOrForeign(b, outs[i])>>,
    <<"endgraph_scope_stack_restored", Known(b) => (st = inherited[b] /\ stacks[b] = st)>>>>
DoEndGraph(graph) == /\ ended' = ended \cup {graph}
                     /\ UNCHANGED <<inl, stacks, inherited, par, gOf, defs, nnames, vnames, ncount, inits, cache, keylit, nodes, stats>>

OutputClauses(b, graph, v) ==
  <<<<"output_builder_known", Known(b)>>,
    <<"output_goes_to_the_builders_graph", Known(b) => graph = gOf[b]>>,
    <<"output_value_visible", Known(b) => VisibleOrForeign(b, v)>>>>

InlineBeginClauses(b) == <<<<"inline_builder_known", Known(b)>>, <<"inline_not_nested", b \notin inl>>>>
DoInlineBegin(b) == /\ inl' = inl \cup {b}
                    /\ UNCHANGED <<stacks, inherited, par, gOf, defs, nnames, vnames, ncount, inits, cache, keylit, ended, nodes, stats>>
DoInlineEnd(b) == /\ inl' = inl \ {b}
                  /\ UNCHANGED <<stacks, inherited, par, gOf, defs, nnames, vnames, ncount, inits, cache, keylit, ended, nodes, stats>>
InlineEndClauses(b, outs, ns) ==
  <<<<"inline_builder_known", Known(b)>>,
    <<"inline_nodes_were_added", SeqSet(ns) \subseteq nodes>>,
    <<"inline_outputs_visible", Known(b) => \A i \in 1..Len(outs) : outs[i] = "" \/ VisibleOrForeign(b, outs[i])>>>>

\* when the trace is closed (build_graph / build_function of a root builder returned, or the driver closed it)
BEndClauses(root) ==
  <<<<"end_root_scope_stack_empty", stacks[root] = <<>> >>,
    <<"end_every_subgraph_builder_finished", \A b \in DOMAIN par : par[b] # "" => gOf[b] \in ended>>>>
=============================================================================
