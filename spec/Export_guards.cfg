SPECIFICATION Spec
CONSTANTS
  Deviations <- AllDevs
  MaxItems = 1
  MaxCF = 1
  Thorough = FALSE
INVARIANT GuardsSound
CHECK_DEADLOCK FALSE
