SPECIFICATION Spec
CONSTANTS
  Deviations <- RealDevs
  MaxLen = 3
  Values <- AllValues
INVARIANT Explained
CHECK_DEADLOCK FALSE
