SPECIFICATION Spec
CONSTANTS
  Deviations <- ShadowDev
  MaxExtra = 0
  AttrModes <- ModesQuick
  VarNone = FALSE
  ReqVersions <- ReqQuick
INVARIANT Mirror
CHECK_DEADLOCK FALSE
