SPECIFICATION Spec
CONSTANTS
  Deviations <- AllDevs
  MaxExtra = 0
  AttrModes <- ModesQuick
  VarNone = FALSE
INVARIANT Mirror
CHECK_DEADLOCK FALSE
