SPECIFICATION Spec
CONSTANTS
  Deviations <- AllDevs
  InputMenu <- MenuSim
  MaxNodes = 4
  Vals <- ValsStd
  Rich = 2
  Chain = TRUE
INVARIANT DesignSound
INVARIANT ShapesSound
INVARIANT Emit
CHECK_DEADLOCK FALSE
