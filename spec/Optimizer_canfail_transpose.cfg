SPECIFICATION Spec
CONSTANTS
  Deviations <- RealDevs
  MaxNodes = 2
  Worlds <- R3World
  Rich = FALSE
  NumIter = 2
  EarlyStop = TRUE
  Sim = FALSE
  Fine = FALSE
  Mutant = "transpose_order"
INVARIANT PropertyHolds
CHECK_DEADLOCK FALSE
