SPECIFICATION Spec
CONSTANTS
  Deviations <- RealDevs
  MaxNodes = 2
  MinNodes = 1
  MaxDepth = 1
  MaxBlock = 2
  Kinds <- PAsgKinds
  Tiny = TRUE
  Ops = FALSE
  Rich = FALSE
INVARIANT DesignFaithful
INVARIANT DeviationsExplain
INVARIANT Emit
CHECK_DEADLOCK FALSE
