SPECIFICATION Spec
CONSTANTS
  Deviations <- NoDevs
  MaxExtra = 3
  AttrModes <- ModesThorough
  VarNone = TRUE
INVARIANT Mirror
INVARIANT DynAgrees
INVARIANT TrimInv
CHECK_DEADLOCK FALSE
