SPECIFICATION Spec
CONSTANTS
  Deviations <- NoDevs
  MaxExtra = 3
  AttrModes <- ModesThorough
  VarNone = TRUE
  ReqVersions <- ReqThorough
INVARIANT Mirror
INVARIANT DynAgrees
INVARIANT TrimInv
INVARIANT TransMirror
CHECK_DEADLOCK FALSE
