------------------------------- MODULE Export -------------------------------
(* C13: ONNX -> Python (onnxscript.proto2python == backend/onnx_export.export2python) -> ONNX.   *)
(*                                                                                              *)
(* A behaviour                                                                                  *)
(*   1. builds an abstract ONNX graph item by item (Gen* actions: straight-line nodes, Constant *)
(*      nodes of several value kinds, initializers, an attribute-reference Constant, If nodes   *)
(*      and the Loop forms for / while / for+cond, with nested bodies taken from small menus),  *)
(*   2. fixes the export configuration (Configure: ModelProto or FunctionProto, the four export *)
(*      options, the ONNX names of the values - default names or names that need clean-up /     *)
(*      collide after clean-up / equal the attribute parameter -, how the types are declared),  *)
(*   3. runs the exporter the way _Exporter does, one action per step of the code               *)
(*      (TranslateSignature, TranslateInitializers, TranslateTopNode [-> TrNode / TrIf / TrLoop *)
(*      / inline constants], TranslateReturn), producing an abstract Python program,            *)
(*   4. (Check) decides whether that program can be exec'ed and converted by onnxscript.script  *)
(*      (Convertible: indentation, duplicate parameters, unbound names, break form, default     *)
(*      opset) and runs it with Python's semantics on the test vectors (PyRun), against the     *)
(*      denotational semantics of the original graph (Eval).                                    *)
(*                                                                                              *)
(* The exporter operators take the set of deviations `dv` as a parameter: with dv = {} they are *)
(* the *design* (what the property demands: every reference rendered consistently, an          *)
(* injective renamer, parallel state copy, ...), with dv = Deviations they are the              *)
(* *implementation model* (what onnx_export.py really does).  DesignOK: the design round-trips  *)
(* every generated case.  DeviationsExplain: whenever the implementation model does not, some   *)
(* single named deviation already breaks the design on that case.                               *)
EXTENDS Integers, Sequences, FiniteSets, TLC, Json

CONSTANTS Deviations,      \* subset of AllDevs
          MaxItems,        \* number of top-level items of a generated graph
          MaxCF,           \* how many of them may be If/Loop items
          Thorough         \* BOOLEAN: full item menus, any item may start a two-item graph, all colliding name
                           \* families (see MayAdd, Namings, ConfigOK for what the quick tier leaves out)
VARIABLES g, stage, cfg, ex, res
vars == <<g, stage, cfg, ex, res>>

AllDevs == {"cleanup_collision", "rename_signature", "for_loop_no_scope", "inline_const_nonref",
            "loop_break_form", "loop_state_seq_copy", "infix_neg_literal_pow", "inline_nan_inf",
            "no_default_opset", "skip_init_indent", "inline_init_key", "init_double_rename",
            "attr_nonfinite_repr", "dead_if_refused"}
NoDevs == {}
(* Deviations (onnxscript/backend/onnx_export.py), each confirmed on the real code by the conformance replay:       *)
(*  cleanup_collision      _cleanup_variable_name is not injective ("a.b"/"a_b", "1x"/"__1x", "if"/"r_if"); the     *)
(*                         short-name mapper is keyed by the cleaned name, so rename=True collides the same way      *)
(*  rename_signature       _translate_signature (ModelProto) names the parameters with _cleanup_variable_name while  *)
(*                         the body uses the short names: every use of a graph input is unbound                      *)
(*  for_loop_no_scope      _translate_loop writes self._name_remappings[-1] but _translate_graph pushes no scope:    *)
(*                         IndexError for every for-style Loop of a model                                            *)
(*  inline_const_nonref    _emit_assign / range(n) / return use _translate_onnx_var, not ..._ref: an inlined         *)
(*                         constant that is a Loop trip count or initial value, a branch / body output or a graph    *)
(*                         output is referenced by a name that was never assigned                                    *)
(*  loop_break_form        Loop with trip count and condition (or iteration number read in a while-style body) is    *)
(*                         rendered as `for i in range(n): if not c: break` (range(None) without trip count; c       *)
(*                         unassigned when the Loop has no condition input), which the converter refuses             *)
(*  loop_state_seq_copy    the loop-carried variables are copied one assignment after the other: a body that         *)
(*                         returns a permutation of its inputs ((a, b) -> (b, a), (a + b, a)) is changed             *)
(*  infix_neg_literal_pow  use_operators + inline_const: Pow(-1.0, y) becomes `-1.0 ** y` = -(1.0 ** y)              *)
(*  inline_nan_inf         inline_const renders nan / inf / -inf as bare names                                        *)
(*  attr_nonfinite_repr    FLOAT / FLOATS attributes are rendered with repr(): Constant(value_float=inf)             *)
(*  no_default_opset       @script() without default_opset: a function whose statements are all operators / copies   *)
(*                         is refused by script()                                                                    *)
(*  skip_init_indent       skip_initializers=True without a large initializer returns the indented inner function    *)
(*                         (IndentationError)                                                                        *)
(*  inline_init_key        inlined initializers are stored under the renamed name and looked up under the ONNX name  *)
(*  init_double_rename     the Constant node built for an initializer gets the renamed name and is renamed again     *)
(*  dead_if_refused        an If node none of whose outputs is used is rendered as an `if` statement that assigns    *)
(*                         only dead variables; the converter refuses it ("A subgraph for a test do not have any     *)
(*                         output variable")                                                                         *)

-----------------------------------------------------------------------------
(* values: FLOAT / INT64 scalars holding integers, nan and +-inf; BOOL; Err = a value of the wrong *)
(* type was used (only reachable in exported programs whose names collide)                      *)
Num(n) == [k |-> "n", v |-> n]             \* FLOAT
IntV(n) == [k |-> "i", v |-> n]            \* INT64 (trip counts, iteration numbers)
BoolV(b) == [k |-> "b", v |-> IF b THEN 1 ELSE 0]
Err == [k |-> "err", v |-> 0]
Truth(x) == x.k = "b" /\ x.v = 1
Numeric(x) == x.k \in {"n", "nan", "inf"}
Nan == [k |-> "nan", v |-> 0]
Inf(s) == [k |-> "inf", v |-> s]
FNeg(a) == IF a.k = "nan" THEN Nan ELSE [k |-> a.k, v |-> -a.v]
FAdd(a, b) == IF a.k = "nan" \/ b.k = "nan" THEN Nan
              ELSE IF a.k = "inf" THEN (IF b.k = "inf" /\ b.v # a.v THEN Nan ELSE a)
              ELSE IF b.k = "inf" THEN b ELSE Num(a.v + b.v)
Sgn(a) == IF a.v > 0 THEN 1 ELSE IF a.v < 0 THEN -1 ELSE 0
FMul(a, b) == IF a.k = "nan" \/ b.k = "nan" THEN Nan
              ELSE IF a.k = "inf" \/ b.k = "inf"
                   THEN (IF Sgn(a) * Sgn(b) = 0 THEN Nan ELSE Inf(Sgn(a) * Sgn(b)))
              ELSE Num(a.v * b.v)
\* a < b on the extended reals; FALSE when either is nan
FLt(a, b) == IF a.k = "nan" \/ b.k = "nan" THEN FALSE
             ELSE IF a.k = "inf" THEN (a.v < 0 /\ ~(b.k = "inf" /\ b.v < 0))
             ELSE IF b.k = "inf" THEN b.v > 0
             ELSE a.v < b.v
FMax(a, b) == IF a.k = "nan" \/ b.k = "nan" THEN Nan ELSE IF FLt(a, b) THEN b ELSE a
\* Pow is only generated with the exponent 2.0
FPow(a, e) == IF e = Num(2) THEN FMul(a, a) ELSE Nan

ApplyOp(op, a) ==
  IF op = "Cast" THEN (IF a[1].k = "i" THEN Num(a[1].v) ELSE IF Numeric(a[1]) THEN a[1] ELSE Err)    \* to FLOAT
  ELSE IF op # "Identity" /\ \E j \in 1..Len(a) : ~Numeric(a[j]) THEN Err ELSE
  CASE op = "Neg" -> FNeg(a[1])
    [] op = "Identity" -> a[1]
    [] op = "RSum" -> a[1]                  \* ReduceSum(keepdims=0): vectors are represented by their sum
    [] op = "Add" -> FAdd(a[1], a[2])
    [] op = "Sub" -> FAdd(a[1], FNeg(a[2]))
    [] op = "Mul" -> FMul(a[1], a[2])
    [] op = "Max" -> FMax(a[1], a[2])
    [] op = "Pow" -> FPow(a[1], a[2])
    [] op = "Greater" -> BoolV(FLt(a[2], a[1]))
    [] op = "Less" -> BoolV(FLt(a[1], a[2]))
    [] op = "LessOrEqual" -> BoolV(a[1].k # "nan" /\ a[2].k # "nan" /\ ~FLt(a[2], a[1]))

\* onnx_export._translate_node: the `ops` table used with use_operators (the entry "Lesser"
\* matches no ONNX operator, so Less is always rendered as a call)
InfixOps == {"Add", "Sub", "Mul", "Pow", "Greater", "LessOrEqual"}

\* Constant / initializer tokens.  inl: _get_const_repr gives a compact text (FLOAT/INT64, rank 0
\* or rank 1 with fewer than 5 elements); neg: that text starts with '-'; fin: it is not nan/inf/-inf
TokRec(dt, val, inl, neg, fin, big) == [dt |-> dt, val |-> val, inl |-> inl, neg |-> neg, fin |-> fin, big |-> big, form |-> "t"]
\* Constant(value_float=...) : a FLOAT attribute instead of a tensor; never inlined, rendered with repr()
AttrTok(val, fin) == [dt |-> "f", val |-> val, inl |-> FALSE, neg |-> FALSE, fin |-> fin, big |-> FALSE, form |-> "f"]
Tok == [c1   |-> TokRec("f", Num(1), TRUE, FALSE, TRUE, FALSE),
        c2   |-> TokRec("f", Num(2), TRUE, FALSE, TRUE, FALSE),
        c4   |-> TokRec("f", Num(4), TRUE, FALSE, TRUE, FALSE),
        cm1  |-> TokRec("f", Num(-1), TRUE, TRUE, TRUE, FALSE),
        cnan |-> TokRec("f", Nan, TRUE, FALSE, FALSE, FALSE),
        cinf |-> TokRec("f", Inf(1), TRUE, FALSE, FALSE, FALSE),
        cninf |-> TokRec("f", Inf(-1), TRUE, TRUE, FALSE, FALSE),
        cv   |-> TokRec("v", Num(3), TRUE, FALSE, TRUE, FALSE),      \* FLOAT[2] = [1.0, 2.0]
        ci3  |-> TokRec("i", IntV(3), TRUE, FALSE, TRUE, FALSE),      \* INT64 scalar 3
        af2  |-> AttrTok(Num(2), TRUE),                               \* value_float=2.0
        afinf |-> AttrTok(Inf(1), FALSE),                             \* value_float=inf
        w0   |-> TokRec("f", Num(5), TRUE, FALSE, TRUE, FALSE),      \* initializer FLOAT[] 5.0
        w6   |-> TokRec("v", Num(21), FALSE, FALSE, TRUE, TRUE)]     \* initializer FLOAT[6] = 1..6

-----------------------------------------------------------------------------
(* abstract graphs *)
T(k) == "t" \o ToString(k)
OpN(op, ins, out) == [k |-> "op", op |-> op, ins |-> ins, out |-> out]
ConstN(tok, out) == [k |-> "const", tok |-> tok, out |-> out]
AttrN(out) == [k |-> "attrconst", out |-> out]        \* Constant(value_float = @k) in a function
Blk(nodes, outs) == [nodes |-> nodes, outs |-> outs]
IfN(c, outs, th, el) == [k |-> "if", cond |-> c, outs |-> outs, th |-> th, el |-> el]
LoopN(trip, cond, inits, outs, body) ==
  [k |-> "loop", trip |-> trip, cond |-> cond, inits |-> inits, outs |-> outs, body |-> body]
Body(iter, cin, sins, nodes, cout, souts) ==
  [iter |-> iter, cin |-> cin, sins |-> sins, nodes |-> nodes, cout |-> cout, souts |-> souts]

Inputs == <<"X", "N", "B">>                \* FLOAT, INT64 (trip counts), BOOL
TV == << [X |-> Num(-2), N |-> IntV(0), B |-> BoolV(FALSE)],
         [X |-> Num(1),  N |-> IntV(2), B |-> BoolV(TRUE)],
         [X |-> Num(3),  N |-> IntV(3), B |-> BoolV(TRUE)] >>

RECURSIVE Flat(_)
Flat(ns) == IF ns = <<>> THEN <<>> ELSE
  LET n == Head(ns) IN
  (CASE n.k = "if" -> <<n>> \o Flat(n.th.nodes) \o Flat(n.el.nodes)
     [] n.k = "loop" -> <<n>> \o Flat(n.body.nodes)
     [] OTHER -> <<n>>) \o Flat(Tail(ns))
SeqSet(s) == {s[i] : i \in 1..Len(s)}

(* denotational semantics of a graph: Eval *)
Bind(env, ids, vals) ==
  [i \in SeqSet(ids) |-> vals[CHOOSE j \in 1..Len(ids) : ids[j] = i]] @@ env
RECURSIVE EvalNodes(_, _), LoopRun(_, _, _, _, _, _)
EvalNode(n, env) ==
  CASE n.k = "op" -> (n.out :> ApplyOp(n.op, [j \in 1..Len(n.ins) |-> env[n.ins[j]]])) @@ env
    [] n.k = "const" -> (n.out :> Tok[n.tok].val) @@ env
    [] n.k = "attrconst" -> (n.out :> Num(2)) @@ env
    [] n.k = "if" -> LET b == IF Truth(env[n.cond]) THEN n.th ELSE n.el
                         e2 == EvalNodes(b.nodes, env)
                     IN Bind(env, n.outs, [j \in 1..Len(b.outs) |-> e2[b.outs[j]]])
    [] n.k = "loop" -> Bind(env, n.outs,
                            LoopRun(n, env, 0, IF n.cond = "" THEN BoolV(TRUE) ELSE env[n.cond],
                                    [j \in 1..Len(n.inits) |-> env[n.inits[j]]], 12))
EvalNodes(ns, env) == IF ns = <<>> THEN env ELSE EvalNodes(Tail(ns), EvalNode(Head(ns), env))
LoopRun(n, env, i, c, st, fuel) ==
  IF fuel = 0 \/ ~Truth(c) \/ (n.trip # "" /\ i >= env[n.trip].v) THEN st
  ELSE LET b == n.body
           e1 == Bind(Bind(env, <<b.iter, b.cin>>, <<IntV(i), c>>), b.sins, st)
           e2 == EvalNodes(b.nodes, e1)
       IN LoopRun(n, env, i + 1, e2[b.cout], [j \in 1..Len(b.souts) |-> e2[b.souts[j]]], fuel - 1)

-----------------------------------------------------------------------------
(* generation: g = [items, inits, n, last, prev, tys, outs, attr, cf]                           *)
(*  n: ids t1..tn allocated; last/prev: the two most recent FLOAT results (operands of the next *)
(*  item); tys[i]: type of t_i ("f" FLOAT[], "i" INT64[], "b" BOOL[], "v" FLOAT vector)         *)
Item(nodes, tys, last, prev) == [nodes |-> nodes, tys |-> tys, last |-> last, prev |-> prev, inits |-> <<>>, out2 |-> ""]
Item2(nodes, tys, out1, out2) == [nodes |-> nodes, tys |-> tys, last |-> out1, prev |-> out2, inits |-> <<>>, out2 |-> out2]   \* two results
L == g.last
P == g.prev
K == g.n

ItemUn == Item(<<OpN("Neg", <<L>>, T(K + 1))>>, <<"f">>, T(K + 1), L)
BinOps == IF Thorough THEN {"Add", "Sub", "Mul", "Max"} ELSE {"Sub", "Max"}
BinPats == {"lx", "xl", "lp"}
ItemBin(op, pat) ==
  LET ab == CASE pat = "lx" -> <<L, "X">> [] pat = "xl" -> <<"X", L>> [] pat = "lp" -> <<L, P>>
  IN Item(<<OpN(op, ab, T(K + 1))>>, <<"f">>, T(K + 1), L)
ConstToks == IF Thorough THEN {"c2", "cm1", "cnan", "cinf", "cninf", "af2", "afinf"} ELSE {"c2", "cm1", "cnan", "cinf", "afinf"}
ItemConst(tok) == Item(<<ConstN(tok, T(K + 1))>>, <<"f">>, T(K + 1), L)
ItemPow == Item(<<ConstN("c2", T(K + 1)), OpN("Pow", <<L, T(K + 1)>>, T(K + 2)), OpN("Neg", <<T(K + 2)>>, T(K + 3))>>,      \* -(L ** 2.0)
                <<"f", "f", "f">>, T(K + 3), L)
ItemVec == Item(<<ConstN("cv", T(K + 1)), OpN("RSum", <<T(K + 1)>>, T(K + 2))>>, <<"v", "f">>, T(K + 2), L)
ItemAttr == Item(<<AttrN(T(K + 1))>>, <<"f">>, T(K + 1), L)
ItemInit(tok) ==
  [Item(<<IF tok = "w0" THEN OpN("Max", <<L, T(K + 1)>>, T(K + 2)) ELSE OpN("RSum", <<T(K + 1)>>, T(K + 2))>>,
        <<Tok[tok].dt, "f">>, T(K + 2), L) EXCEPT !.inits = <<[id |-> T(K + 1), tok |-> tok]>>]

\* If items.  csrc: the condition is the graph input B or a comparison computed in the graph
IfVariants == IF Thorough THEN {"negid", "constadd", "two", "loopin", "attrin"} ELSE {"negid", "constadd", "two", "attrin"}
\* variants that reference the attribute parameter k inside a nested body (FunctionProto only)
AttrVariants == {"attrin", "attrinc"}
CmpOps == IF Thorough THEN {"Greater", "Less", "LessOrEqual"} ELSE {"Greater"}
ForBody(k, init) ==      \* a for-loop over N adding 1.0 to its state, ids from k+1: used nested
  LET it == T(k + 1) cin == T(k + 2) s == T(k + 3)
  IN [node |-> LoopN("N", "", <<init>>, <<T(k + 7)>>,
                     Body(it, cin, <<s>>,
                          <<ConstN("c1", T(k + 4)), OpN("Add", <<s, T(k + 4)>>, T(k + 5)), OpN("Identity", <<cin>>, T(k + 6))>>,
                          T(k + 6), <<T(k + 5)>>)),
      tys |-> <<"i", "b", "f", "f", "f", "b", "f">>, out |-> T(k + 7), n |-> k + 7]
ItemIf(csrc, v) ==
  LET pre == IF csrc = "B" THEN <<>> ELSE <<ConstN("c1", T(K + 1)), OpN(csrc, <<L, T(K + 1)>>, T(K + 2))>>   \* L <op> 1.0
      c == IF csrc = "B" THEN "B" ELSE T(K + 2)
      pty == IF csrc = "B" THEN <<>> ELSE <<"f", "b">>
      k == K + Len(pre)
  IN CASE v = "negid" ->
            Item(pre \o <<IfN(c, <<T(k + 3)>>, Blk(<<OpN("Neg", <<L>>, T(k + 1))>>, <<T(k + 1)>>),
                                            Blk(<<OpN("Identity", <<L>>, T(k + 2))>>, <<T(k + 2)>>))>>,
                 pty \o <<"f", "f", "f">>, T(k + 3), L)
       [] v = "constadd" ->
            Item(pre \o <<IfN(c, <<T(k + 3)>>, Blk(<<ConstN("c2", T(k + 1))>>, <<T(k + 1)>>),
                                            Blk(<<OpN("Add", <<L, "X">>, T(k + 2))>>, <<T(k + 2)>>))>>,
                 pty \o <<"f", "f", "f">>, T(k + 3), L)
       [] v = "two" ->
            Item2(pre \o <<IfN(c, <<T(k + 5), T(k + 6)>>,
                              Blk(<<OpN("Neg", <<L>>, T(k + 1)), OpN("Identity", <<"X">>, T(k + 2))>>, <<T(k + 1), T(k + 2)>>),
                              Blk(<<OpN("Identity", <<"X">>, T(k + 3)), ConstN("cm1", T(k + 4))>>, <<T(k + 3), T(k + 4)>>))>>,
                 pty \o <<"f", "f", "f", "f", "f", "f">>, T(k + 5), T(k + 6))
       [] v = "attrin" ->      \* the attribute parameter is referenced only inside the then-branch
            Item(pre \o <<IfN(c, <<T(k + 4)>>, Blk(<<AttrN(T(k + 1)), OpN("Add", <<L, T(k + 1)>>, T(k + 2))>>, <<T(k + 2)>>),
                                            Blk(<<OpN("Identity", <<L>>, T(k + 3))>>, <<T(k + 3)>>))>>,
                 pty \o <<"f", "f", "f", "f">>, T(k + 4), L)
       [] v = "loopin" ->
            LET fb == ForBody(k, L) IN
            Item(pre \o <<IfN(c, <<T(fb.n + 2)>>, Blk(<<fb.node>>, <<fb.out>>),
                                                Blk(<<OpN("Identity", <<L>>, T(fb.n + 1))>>, <<T(fb.n + 1)>>))>>,
                 pty \o fb.tys \o <<"f", "f">>, T(fb.n + 2), L)

\* Loop items.  form: which of trip count / condition the Loop node has and the body uses
\*   for      Loop(N, "", s)          body passes the condition through
\*   forc     Loop(<const 3>, "", s)
\*   while    Loop("", c0, s)         body computes the next condition
\*   forwhile Loop(N, c0, s)          body computes the next condition
\*   forbc    Loop(N, "", s)          no condition given, but the body computes one
\*   whilei   Loop("", c0, s)         and the body reads the iteration number
LoopMenu == IF Thorough
            THEN {<<"for", "inc">>, <<"for", "swap">>, <<"for", "fib">>, <<"for", "iter">>, <<"for", "const">>, <<"for", "ifin">>,
                  <<"forc", "inc">>, <<"forc", "fib">>, <<"while", "inc">>, <<"whilei", "iter">>,
                  <<"forwhile", "inc">>, <<"forwhile", "iter">>, <<"forwhile", "const">>, <<"forbc", "inc">>,
                  <<"for", "attrinc">>, <<"while", "attrinc">>}
            ELSE {<<"for", "inc">>, <<"for", "swap">>, <<"for", "fib">>, <<"for", "iter">>, <<"for", "const">>,
                  <<"forc", "inc">>, <<"while", "inc">>, <<"whilei", "iter">>, <<"forwhile", "inc">>, <<"forbc", "inc">>,
                  <<"for", "attrinc">>}
ItemLoop(form, bv) ==
  LET needLim == form \in {"while", "forwhile", "forbc", "whilei"}
      needC0 == form \in {"while", "forwhile", "whilei"}
      pre1 == IF form = "forc" THEN <<ConstN("ci3", T(K + 1))>> ELSE <<>>
      k1 == K + Len(pre1)
      pre2 == IF needLim THEN <<ConstN("c4", T(k1 + 1))>> ELSE <<>>
      lim == T(k1 + 1)
      k2 == k1 + Len(pre2)
      init1 == IF needLim THEN "X" ELSE L          \* conditional loops start from X (termination)
      pre3 == IF needC0 THEN <<OpN("Less", <<init1, lim>>, T(k2 + 1))>> ELSE <<>>
      k3 == k2 + Len(pre3)
      prety == (IF form = "forc" THEN <<"i">> ELSE <<>>) \o (IF needLim THEN <<"f">> ELSE <<>>) \o (IF needC0 THEN <<"b">> ELSE <<>>)
      it == T(k3 + 1) cin == T(k3 + 2) s1 == T(k3 + 3) s2 == T(k3 + 4)
      two == bv \in {"swap", "fib"}
      kb == k3 + (IF two THEN 4 ELSE 3)
      bs == CASE bv = "inc" -> [nodes |-> <<ConstN("c1", T(kb + 1)), OpN("Add", <<s1, T(kb + 1)>>, T(kb + 2))>>,
                                souts |-> <<T(kb + 2)>>, tys |-> <<"f", "f">>]
              [] bv = "swap" -> [nodes |-> <<>>, souts |-> <<s2, s1>>, tys |-> <<>>]
              [] bv = "fib" -> [nodes |-> <<OpN("Add", <<s1, s2>>, T(kb + 1))>>, souts |-> <<T(kb + 1), s1>>, tys |-> <<"f">>]
              [] bv = "iter" -> [nodes |-> <<OpN("Cast", <<it>>, T(kb + 1)), OpN("Add", <<s1, T(kb + 1)>>, T(kb + 2))>>,
                                 souts |-> <<T(kb + 2)>>, tys |-> <<"f", "f">>]
              [] bv = "attrinc" ->      \* s' = s + k: the attribute parameter is referenced only inside the body
                   [nodes |-> <<AttrN(T(kb + 1)), OpN("Add", <<s1, T(kb + 1)>>, T(kb + 2))>>, souts |-> <<T(kb + 2)>>, tys |-> <<"f", "f">>]
              [] bv = "const" -> [nodes |-> <<ConstN("c2", T(kb + 1))>>, souts |-> <<T(kb + 1)>>, tys |-> <<"f">>]
              [] bv = "ifin" ->        \* an If inside the body: s' = s > X ? -s : s + X
                   [nodes |-> <<OpN("Greater", <<s1, "X">>, T(kb + 1)),
                                IfN(T(kb + 1), <<T(kb + 4)>>, Blk(<<OpN("Neg", <<s1>>, T(kb + 2))>>, <<T(kb + 2)>>),
                                                             Blk(<<OpN("Add", <<s1, "X">>, T(kb + 3))>>, <<T(kb + 3)>>))>>,
                    souts |-> <<T(kb + 4)>>, tys |-> <<"b", "f", "f", "f">>]
      kc == kb + Len(bs.tys)
      cout == T(kc + 1)
      condN == IF needLim THEN OpN("Less", <<bs.souts[1], lim>>, cout) ELSE OpN("Identity", <<cin>>, cout)
      outs == IF two THEN <<T(kc + 2), T(kc + 3)>> ELSE <<T(kc + 2)>>
      trip == IF form = "forc" THEN T(K + 1) ELSE IF form \in {"for", "forwhile", "forbc"} THEN "N" ELSE ""
      cond == IF needC0 THEN T(k2 + 1) ELSE ""
      inits == IF two THEN <<init1, "X">> ELSE <<init1>>
      node == LoopN(trip, cond, inits, outs,
                    Body(it, cin, IF two THEN <<s1, s2>> ELSE <<s1>>, bs.nodes \o <<condN>>, cout, bs.souts))
      alltys == prety \o <<"i", "b">> \o (IF two THEN <<"f", "f">> ELSE <<"f">>) \o bs.tys \o <<"b">> \o (IF two THEN <<"f", "f">> ELSE <<"f">>)
  IN IF two THEN Item2(pre1 \o pre2 \o pre3 \o <<node>>, alltys, outs[1], outs[2])
     ELSE Item(pre1 \o pre2 \o pre3 \o <<node>>, alltys, outs[1], L)

Append1(it, cf, attr, pk) ==
  g' = [items |-> g.items \o it.nodes, inits |-> g.inits \o it.inits, n |-> g.n + Len(it.tys),
        ids |-> g.ids \o [i \in 1..Len(it.tys) |-> T(g.n + i)],
        last |-> it.last, prev |-> it.prev, out2 |-> it.out2, tys |-> g.tys \o it.tys, len |-> g.len + 1,
        attr |-> (g.attr \/ attr), cf |-> g.cf + cf, pk |-> (IF g.len = 0 THEN pk ELSE g.pk)]
\* quick tier: a second item only after a constant, an initializer or the attribute constant (pk = kind of item 1)
MayAdd == Thorough \/ g.len = 0 \/ g.pk \in {"const", "init", "attr"}
CanGen == stage = "gen" /\ g.len < MaxItems /\ MayAdd
Keep == UNCHANGED <<stage, cfg, ex, res>>
GenUn == CanGen /\ Append1(ItemUn, 0, FALSE, "op") /\ Keep
GenBin == CanGen /\ (\E op \in BinOps, pat \in BinPats : (pat = "lp" => P # L) /\ Append1(ItemBin(op, pat), 0, FALSE, "op")) /\ Keep
GenConst == CanGen /\ (\E tok \in ConstToks : Append1(ItemConst(tok), 0, FALSE, "const")) /\ Keep
GenPow == CanGen /\ Append1(ItemPow, 0, FALSE, "op") /\ Keep
GenVec == CanGen /\ Append1(ItemVec, 0, FALSE, "op") /\ Keep
GenInit == CanGen /\ ~g.attr /\ g.inits = <<>> /\ (\E tok \in {"w0", "w6"} : Append1(ItemInit(tok), 0, FALSE, "init")) /\ Keep
GenAttr == CanGen /\ ~g.attr /\ g.inits = <<>> /\ Append1(ItemAttr, 0, TRUE, "attr") /\ Keep
GenIf == CanGen /\ g.cf < MaxCF /\ (\E c \in {"B"} \cup CmpOps, v \in IfVariants :
                                        (v \in AttrVariants => g.inits = <<>>) /\ Append1(ItemIf(c, v), 1, v \in AttrVariants, "cf")) /\ Keep
GenLoop == CanGen /\ g.cf < MaxCF /\ (\E fb \in LoopMenu :
                                          (fb[2] \in AttrVariants => g.inits = <<>>) /\ Append1(ItemLoop(fb[1], fb[2]), 1, fb[2] \in AttrVariants, "cf")) /\ Keep

\* graph outputs: the result(s) of the last item
Outs == IF g.out2 = "" THEN <<g.last>> ELSE <<g.last, g.out2>>
AllIds == g.ids                  \* Inputs \o <<t1, ..., tn>>

-----------------------------------------------------------------------------
(* names.  An ONNX name is a sequence of tokens: alphanumeric chunks, "_" and punctuation; the  *)
(* real name is their concatenation.  Clean == onnx_export._cleanup_variable_name.             *)
Keywords == {"if"}
DigitToks == {"1"}
Punct == {".", ":"}
Clean(nm) ==
  IF Len(nm) = 1 /\ nm[1] \in Keywords THEN <<"r", "_">> \o nm
  ELSE LET n2 == IF nm[1] \in DigitToks \/ nm[1] \in Punct THEN <<"_", "_">> \o nm ELSE nm
       IN [i \in 1..Len(n2) |-> IF n2[i] \in Punct THEN "_" ELSE n2[i]]
DOTA == <<"a", ".", "b">>
DOTB == <<"a", "_", "b">>
DIGA == <<"1", "x">>
DIGB == <<"_", "_", "1", "x">>
KWA == <<"if">>
KWB == <<"r", "_", "if">>
COLA == <<"a", ":", "b">>
ATTRN == <<"k">>              \* the attribute parameter of the generated function
ATTR0 == <<"k", "_", "0">>    \* the first alternative _handle_attrname_conflict tries
ATTR0D == <<"k", ".", "0">>   \* a name that becomes that alternative only after clean-up
Pos(id) == CHOOSE i \in 1..Len(AllIds) : AllIds[i] = id
DefaultName(id) == IF id \in SeqSet(Inputs) THEN <<id>> ELSE <<"t", ToString(Pos(id) - Len(Inputs))>>
Singles == {DOTA, DIGA, KWA}
NamePairs == IF Thorough THEN {<<DOTA, DOTB>>, <<DIGA, DIGB>>, <<KWA, KWB>>} ELSE {<<DOTA, DOTB>>}
\* the other colliding families only on (X, last result)
FewPairs == IF Thorough THEN {<<DOTA, COLA>>} ELSE {<<DIGA, DIGB>>, <<KWA, KWB>>}
\* a naming is a set of <<id, name>>: the values that do not carry their default name
Namings ==
  {{}} \cup (IF g.len <= 1 \/ ~Thorough THEN {{<<i, s>>} : i \in {"X", g.last}, s \in Singles} ELSE {})
       \cup (IF g.len <= 1
             THEN {{<<i, p[1]>>, <<j, p[2]>>} : i \in SeqSet(AllIds), j \in SeqSet(AllIds), p \in NamePairs}
                  \cup {{<<"X", p[1]>>, <<g.last, p[2]>>} : p \in FewPairs}
             ELSE {})
       \cup (IF g.attr THEN {{<<i, ATTRN>>} : i \in SeqSet(AllIds) \ SeqSet(Inputs)}
                            \cup {{<<i, ATTRN>>, <<j, a0>>} : a0 \in {ATTR0, ATTR0D}, i \in SeqSet(AllIds) \ SeqSet(Inputs),
                                                                  j \in IF g.len <= 1 THEN SeqSet(AllIds) \ SeqSet(Inputs) ELSE {g.last}}
             ELSE {})
\* the name that needs clean-up sits on the earlier value
Canonical(nm) == \A p \in nm, q \in nm : (p[2] \in {DOTA, DIGA, KWA, ATTRN} /\ q[2] \notin {DOTA, DIGA, KWA, ATTRN}) => Pos(p[1]) < Pos(q[1])
WellFormedNaming(nm) == \A p \in nm, q \in nm : (p[1] = q[1] <=> p[2] = q[2])

Nm(id) == IF \E p \in cfg.naming : p[1] = id THEN (CHOOSE p \in cfg.naming : p[1] = id)[2] ELSE DefaultName(id)
CleanOf(id) == Clean(Nm(id))

-----------------------------------------------------------------------------
(* abstract Python program *)
NONE == <<>>
Var(n) == [a |-> "var", n |-> n]
Lit(t) == [a |-> "lit", tok |-> t]
TrueLit == [a |-> "true"]
NoArg == [a |-> "none"]
Call(op, out, args) == [s |-> "call", op |-> op, out |-> out, args |-> args]
\* out = opsetN.Constant(value=make_tensor(...)) / Constant(value_float=...); bad: the text contains a bare inf / nan
ConstS(out, tok, bad) == [s |-> "const", out |-> out, tok |-> tok, bad |-> bad]
AttrS(out) == [s |-> "attrconst", out |-> out]          \* out = opsetN.Constant(value_float=k)
Infix(op, out, args, negleft) == [s |-> "infix", op |-> op, out |-> out, args |-> args, negleft |-> negleft]
Copy(lhs, rhs) == [s |-> "copy", lhs |-> lhs, rhs |-> rhs]
PCopy(lhss, rhss) == [s |-> "pcopy", lhss |-> lhss, rhss |-> rhss]
IfS(c, th, el) == [s |-> "if", cond |-> c, th |-> th, el |-> el]
\* for iter in range(bound): [if not cond: break] body   |   while cond: body
LoopS(iter, bound, cond, brk, body) == [s |-> "loop", iter |-> iter, bound |-> bound, cond |-> cond, brk |-> brk, body |-> body]

(* static facts about the graph that the exporter consults; computed once in Configure *)
FlatAll == Flat(g.items)
ConstPairsOf(fl) == {<<fl[i].out, fl[i].tok>> : i \in {j \in 1..Len(fl) : fl[j].k = "const"}}
ConstPairs == ConstPairsOf(FlatAll)
InitPairs == {<<g.inits[i].id, g.inits[i].tok>> : i \in 1..Len(g.inits)}
\* _is_used_in_graph_body / _cond_is_used_in_loop_body
RECURSIVE NamesIn(_)
NamesIn(ns) == IF ns = <<>> THEN {} ELSE
  LET n == Head(ns) IN
  (CASE n.k = "op" -> SeqSet(n.ins) \cup {n.out}
     [] n.k \in {"const", "attrconst"} -> {n.out}
     [] n.k = "if" -> {n.cond} \cup SeqSet(n.outs) \cup NamesIn(n.th.nodes) \cup SeqSet(n.th.outs) \cup NamesIn(n.el.nodes) \cup SeqSet(n.el.outs)
     [] n.k = "loop" -> ({n.trip, n.cond} \ {""}) \cup SeqSet(n.inits) \cup SeqSet(n.outs) \cup NamesIn(n.body.nodes)
                        \cup {n.body.iter, n.body.cin, n.body.cout} \cup SeqSet(n.body.sins) \cup SeqSet(n.body.souts))
     \cup NamesIn(Tail(ns))
IsPassThrough(n, b) == n.k = "op" /\ n.op = "Identity" /\ n.ins = <<b.cin>> /\ n.out = b.cout
CondUsedInBody(b) == \E i \in 1..Len(b.nodes) : ~IsPassThrough(b.nodes[i], b) /\ {b.cin, b.cout} \cap NamesIn(<<b.nodes[i]>>) # {}
UseIter(n) == n.trip # "" \/ n.body.iter \in NamesIn(n.body.nodes)
UseCond(n) == n.cond # "" \/ CondUsedInBody(n.body)
ForForm(n) == UseIter(n) /\ ~UseCond(n)
\* for loops map the body's condition output back to its condition input (_name_remappings)
CoutPairsOf(fl) == {<<fl[i].body.cout, fl[i].body.cin>> : i \in {j \in 1..Len(fl) : fl[j].k = "loop" /\ ForForm(fl[j])}}
CoutPairs == CoutPairsOf(FlatAll)

IsModel == cfg.kind = "model"
HasAttr == cfg.kind = "function" /\ g.attr

(* renaming: _cleanup_variable_name / _make_short_name_mapper / _handle_attrname_conflict *)
Has(d, dv) == d \in dv
\* All tables are built once per case from the table of cleaned names ct = [id |-> Clean(Nm(id))].
SameClean(id, ct) == {i \in 1..Len(AllIds) : ct[AllIds[i]] = ct[id]}
FirstIdx(id, ct) == CHOOSE i \in SameClean(id, ct) : \A j \in SameClean(id, ct) : i <= j
BaseName(id, dv, ct) == IF Has("cleanup_collision", dv) \/ Cardinality(SameClean(id, ct)) = 1 THEN ct[id]
                        ELSE ct[id] \o <<"~", id>>                  \* design: an injective renamer
Renamed(id, dv, ct) == IF cfg.rename
                       THEN (IF Has("cleanup_collision", dv) THEN <<"v", ToString(FirstIdx(id, ct))>> ELSE <<"v", ToString(Pos(id))>>)
                       ELSE BaseName(id, dv, ct)
\* the two renamers (with and without the clean-up collision) are tabulated once per case (IndexNames)
PyTable(dv, ct) ==
  LET base == [i \in SeqSet(AllIds) |-> Renamed(i, dv, ct)]
      used == {base[i] : i \in SeqSet(AllIds)} \cup {ATTRN}                 \* _names_used (+ the attribute parameter)
      alt == IF ATTR0 \notin used THEN ATTR0 ELSE <<"k", "_", "1">>          \* first free candidate k_0, k_1
  IN [i \in SeqSet(AllIds) |-> IF HasAttr /\ base[i] = ATTRN THEN alt ELSE base[i]]
Py(id, dv) == IF Has("cleanup_collision", dv) THEN ex.pyc[id] ELSE ex.pyu[id]

TokOf(id) == ex.tokof[id]
IsConst(id) == id \in ex.constids
IsInit(id) == id \in ex.initids
\* the Constant statement of this value is dropped by inline_const
Dropped(id, dv) == cfg.inline /\ (IsConst(id) \/ (IsInit(id) /\ IsModel)) /\ Tok[TokOf(id)].inl
                   /\ (Tok[TokOf(id)].fin \/ Has("inline_nan_inf", dv))        \* design: nan/inf stay Constant nodes
\* ... and a reference through _translate_onnx_var_ref finds the text.  For initializers the code
\* stores the text under the *renamed* name and looks it up under the ONNX name.
RefInlined(id, dv) == Dropped(id, dv) /\ (IsInit(id) /\ Has("inline_init_key", dv) => Py(id, dv) = ex.nm[id])
Skipped(id) == IsModel /\ cfg.skip /\ IsInit(id) /\ Tok[TokOf(id)].big

TrVar(id, dv) == IF id \in DOMAIN ex.couts THEN Py(ex.couts[id], dv) ELSE Py(id, dv)
\* _translate_onnx_var_ref: `var in self.constants`.  Constant nodes are entered under their ONNX name,
\* initializers (deviation inline_init_key) under their *translated* name, so the look-up of any value whose
\* ONNX name equals that translated name finds the initializer's text - and the initializer itself is found
\* only when its name needs no clean-up.
InitKeyHit(id, dv) == {w \in ex.initids : Dropped(w, dv) /\ Py(w, dv) = ex.nm[id]}
Ref(id, dv) == IF Has("inline_init_key", dv) /\ ~IsConst(id) /\ InitKeyHit(id, dv) # {}
               THEN Lit(TokOf(CHOOSE w \in InitKeyHit(id, dv) : TRUE))
               ELSE IF RefInlined(id, dv) THEN Lit(TokOf(id)) ELSE Var(TrVar(id, dv))
\* r-values that the code renders with _translate_onnx_var (no constant look-up): _emit_assign,
\* range(n), return
NonRef(id, dv) == IF Has("inline_const_nonref", dv) THEN Var(TrVar(id, dv)) ELSE Ref(id, dv)
Assign(lhs, rhs, dv) == [i \in 1..Len(lhs) |-> Copy(TrVar(lhs[i], dv), NonRef(rhs[i], dv))]     \* _emit_assign
\* state-variable copies: one assignment per variable, in order (design: simultaneous)
AssignState(lhs, rhs, dv) == IF Has("loop_state_seq_copy", dv) \/ Len(lhs) < 2 THEN Assign(lhs, rhs, dv)
                             ELSE <<PCopy([i \in 1..Len(lhs) |-> TrVar(lhs[i], dv)], [i \in 1..Len(rhs) |-> NonRef(rhs[i], dv)])>>

RECURSIVE TrNodes(_, _)
TrOp(n, dv) ==                                                        \* _translate_node, plain operator
  LET out == TrVar(n.out, dv)
      args == [j \in 1..Len(n.ins) |-> Ref(n.ins[j], dv)]
  IN IF cfg.useops /\ n.op \in InfixOps
     THEN <<Infix(n.op, out, args, Has("infix_neg_literal_pow", dv) /\ n.op = "Pow" /\ args[1].a = "lit" /\ Tok[args[1].tok].neg)>>
     ELSE IF n.op = "Identity" /\ args[1].a = "var" /\ args[1].n = out THEN <<>>        \* suppressed redundant copy
     ELSE <<Call(n.op, out, args)>>
BadRepr(tok, dv) == Has("attr_nonfinite_repr", dv) /\ Tok[tok].form = "f" /\ ~Tok[tok].fin     \* repr(float('inf')) = 'inf'
TrConst(n, dv) == IF Dropped(n.out, dv) THEN <<>> ELSE <<ConstS(TrVar(n.out, dv), n.tok, BadRepr(n.tok, dv))>>
TrIf(n, dv) ==                                                        \* _translate_if
  <<IfS(Ref(n.cond, dv), TrNodes(n.th.nodes, dv) \o Assign(n.outs, n.th.outs, dv),
                          TrNodes(n.el.nodes, dv) \o Assign(n.outs, n.el.outs, dv))>>
TrLoop(n, dv) ==                                                      \* _translate_loop
  LET b == n.body
      useIter == UseIter(n)
      useCond == UseCond(n)
      bound == IF n.trip # "" THEN NonRef(n.trip, dv) ELSE NoArg
      pycond == TrVar(b.cin, dv)
      condInit == IF n.cond # "" THEN Assign(<<b.cin>>, <<n.cond>>, dv)
                  ELSE IF useCond /\ ~Has("loop_break_form", dv) THEN <<Copy(pycond, TrueLit)>>   \* design: absent condition = true
                  ELSE <<>>
      brk == useIter /\ useCond
      bodyRows == TrNodes(b.nodes, dv)
                  \o (IF useCond THEN Assign(<<b.cin>>, <<b.cout>>, dv) ELSE <<>>)
                  \o AssignState(b.sins, b.souts, dv)
  IN condInit \o Assign(b.sins, n.inits, dv)
     \o <<LoopS(IF useIter THEN TrVar(b.iter, dv) ELSE NONE, bound, IF useCond THEN pycond ELSE NONE,
                IF brk THEN (IF Has("loop_break_form", dv) THEN "ifnot" ELSE "ok") ELSE "no", bodyRows)>>
     \o Assign(n.outs, b.sins, dv)
TrNode(n, dv) == CASE n.k = "op" -> TrOp(n, dv)
                   [] n.k = "const" -> TrConst(n, dv)
                   [] n.k = "attrconst" -> <<AttrS(TrVar(n.out, dv))>>
                   [] n.k = "if" -> TrIf(n, dv)
                   [] n.k = "loop" -> TrLoop(n, dv)
TrNodes(ns, dv) == IF ns = <<>> THEN <<>> ELSE TrNode(Head(ns), dv) \o TrNodes(Tail(ns), dv)

\* the step of _translate_loop that needs a scope in _name_remappings; _translate_graph pushes none
RaisesAt(n, dv) == Has("for_loop_no_scope", dv) /\ IsModel /\
                   LET fl == Flat(<<n>>) IN \E i \in 1..Len(fl) : fl[i].k = "loop" /\ ForForm(fl[i])

\* _translate_signature (model) uses _cleanup_variable_name, _translate_function_signature the renamer
SigParams(dv) == [i \in 1..Len(Inputs) |->
                    IF IsModel /\ Has("rename_signature", dv)
                    THEN (IF Has("cleanup_collision", dv) THEN ex.clean[Inputs[i]] ELSE ex.baseu[Inputs[i]])   \* never the short name
                    ELSE Py(Inputs[i], dv)]
                 \o (IF HasAttr THEN <<ATTRN>> ELSE <<>>)
\* _translate_graph_body: initializers first
TrInit(i, dv) ==
  LET id == g.inits[i].id
      py == Py(id, dv)
      \* the code builds a Constant node whose output is the *translated* name and translates it again
      py2 == IF cfg.rename /\ Has("init_double_rename", dv) THEN <<"v", "again">> \o py ELSE py
  IN IF Skipped(id) \/ Dropped(id, dv) THEN <<>> ELSE <<ConstS(py2, g.inits[i].tok, FALSE)>>
TrInits(dv) == IF IsModel /\ Len(g.inits) = 1 THEN TrInit(1, dv) ELSE <<>>
Prebound(dv) == IF Len(g.inits) = 1 /\ Skipped(g.inits[1].id) THEN {<<Py(g.inits[1].id, dv), Tok[g.inits[1].tok].val>>} ELSE {}
IndentBad(dv) == Has("skip_init_indent", dv) /\ IsModel /\ cfg.skip /\ Prebound(dv) = {}
Rets(dv) == [j \in 1..Len(Outs) |-> NonRef(Outs[j], dv)]
(* static facts about an exported program *)
RECURSIVE Assigned(_)
Assigned(ss) == IF ss = <<>> THEN {} ELSE
  LET s == Head(ss) IN
  (CASE s.s \in {"call", "infix", "const", "attrconst"} -> {s.out}
     [] s.s = "copy" -> {s.lhs}
     [] s.s = "pcopy" -> SeqSet(s.lhss)
     [] s.s = "if" -> Assigned(s.th) \cup Assigned(s.el)
     [] s.s = "loop" -> Assigned(s.body)) \cup Assigned(Tail(ss))
ArgNames(args) == {args[j].n : j \in {i \in 1..Len(args) : args[i].a = "var"}}
RECURSIVE Uses(_)
Uses(ss) == IF ss = <<>> THEN {} ELSE
  LET s == Head(ss) IN
  (CASE s.s \in {"call", "infix"} -> ArgNames(s.args)
     [] s.s = "copy" -> ArgNames(<<s.rhs>>)
     [] s.s = "pcopy" -> ArgNames(s.rhss)
     [] s.s = "attrconst" -> {ATTRN}
     [] s.s = "if" -> ArgNames(<<s.cond>>) \cup Uses(s.th) \cup Uses(s.el)
     [] s.s = "loop" -> ArgNames(<<s.bound>>) \cup (IF s.cond = NONE THEN {} ELSE {s.cond}) \cup Uses(s.body)
     [] OTHER -> {}) \cup Uses(Tail(ss))
\* an `if` none of whose assigned variables is used afterwards (live: names used after the enclosing block)
RECURSIVE DeadIf(_, _)
DeadIf(ss, live) == IF ss = <<>> THEN FALSE ELSE
  LET s == Head(ss)
      after == live \cup Uses(Tail(ss))
  IN \/ (s.s = "if" /\ ((Assigned(s.th) \cup Assigned(s.el)) \cap after = {} \/ DeadIf(s.th, after) \/ DeadIf(s.el, after)))
     \/ (s.s = "loop" /\ DeadIf(s.body, after \cup Uses(s.body) \cup (IF s.cond = NONE THEN {} ELSE {s.cond})))
     \/ DeadIf(Tail(ss), live)
\* script() needs an opset: design passes default_opset, the code relies on some opsetN.Op(...) call
RECURSIVE HasCall(_)
HasCall(ss) == IF ss = <<>> THEN FALSE ELSE
  LET s == Head(ss) IN
  (CASE s.s \in {"call", "const", "attrconst"} -> TRUE [] s.s = "if" -> HasCall(s.th) \/ HasCall(s.el) [] s.s = "loop" -> HasCall(s.body) [] OTHER -> FALSE)
  \/ HasCall(Tail(ss))

\* Declared type of the graph input X and of the graph outputs (ModelProto only): a scalar, a tensor of unknown
\* rank, or a shape whose axes are 0, 1, 2, symbolic or unknown.  The run-time tensors have that shape (every
\* element holds the scalar of the test vector; a symbolic axis has 3 and an unknown axis 2 elements).
Val(n) == [k |-> "val", v |-> n]
SymD == [k |-> "sym", v |-> 0]
UnkD == [k |-> "unk", v |-> 0]
ScalarT == [form |-> "scalar", dims |-> <<>>]
AnyRankT == [form |-> "anyrank", dims |-> <<>>]
DimsT(ds) == [form |-> "dims", dims |-> ds]
DimMenu == {Val(0), Val(1), Val(2), SymD, UnkD}
ShapeMenu == {<<a>> : a \in DimMenu} \cup {<<a, b>> : a \in DimMenu, b \in DimMenu}
\* shapes are explored on the graphs that consist of one elementwise node over X
ShapeGraph == g.len = 1 /\ g.pk = "op" /\ g.n = 1
\* onnx_types.onnx_type_to_onnxscript_repr: FLOAT (shape without dims), FLOAT[...] (no shape), FLOAT[d1,...] where a
\* dimension with dim_value (0 included) prints its value, one with dim_param its quoted name, any other None
ReprDim(d) == CASE d.k = "val" -> [a |-> "int", v |-> d.v] [] d.k = "sym" -> [a |-> "str", v |-> 0] [] d.k = "unk" -> [a |-> "none", v |-> 0]
ReprType(t) == CASE t.form = "scalar" -> [ann |-> "bare", subs |-> <<>>]
                 [] t.form = "anyrank" -> [ann |-> "ellipsis", subs |-> <<>>]
                 [] t.form = "dims" -> [ann |-> "sub", subs |-> [i \in 1..Len(t.dims) |-> ReprDim(t.dims[i])]]
\* TensorType.__class_getitem__ / to_type_proto: int -> dim_value, str -> dim_param, None -> neither
ParseDim(x) == CASE x.a = "int" -> Val(x.v) [] x.a = "str" -> SymD [] x.a = "none" -> UnkD
ParseType(a) == CASE a.ann = "bare" -> ScalarT
                  [] a.ann = "ellipsis" -> AnyRankT
                  [] a.ann = "sub" -> DimsT([i \in 1..Len(a.subs) |-> ParseDim(a.subs[i])])
\* the annotation of X / of the outputs as printed, and what the generated function declares after parsing it back
SigAnn == ReprType(cfg.xty)
SigTypesOK == cfg.kind # "model" \/ ParseType(SigAnn) = cfg.xty
\* _attribute_param_types: the type of the attribute parameter is the type of a reference to it, looked for in the
\* function body *and all nested graphs*; a parameter without reference is declared `int`.  The converter refuses
\* value_float=k for k: int.
Prog(params, body, rets, dv) == [params |-> params, body |-> body, rets |-> rets, prebound |-> Prebound(dv),
                                 attrty |-> ex.attrty, sigOK |-> SigTypesOK,
                                 indentBad |-> IndentBad(dv),
                                 deadIf |-> (Has("dead_if_refused", dv) /\ DeadIf(body, ArgNames(rets))),
                                 opsetOK |-> (~Has("no_default_opset", dv) \/ HasCall(body))]
RaisesAny(dv) == \E i \in 1..Len(g.items) : RaisesAt(g.items[i], dv)
Export(dv) == IF RaisesAny(dv) THEN [err |-> "IndexError"]
              ELSE [err |-> "", prog |-> Prog(SigParams(dv), TrInits(dv) \o TrNodes(g.items, dv), Rets(dv), dv)]

-----------------------------------------------------------------------------
(* can the text be exec'ed and converted by onnxscript.script? *)
ArgOK(a, defs) == CASE a.a = "var" -> a.n \in defs
                    [] a.a = "lit" -> Tok[a.tok].fin          \* nan / inf / -inf are read as names
                    [] OTHER -> TRUE
RECURSIVE Chk(_, _)
\* Chk(stmts, defs) = <<ok, defs after>>
ChkStmt(s, defs) ==
  CASE s.s \in {"call", "infix"} -> <<\A j \in 1..Len(s.args) : ArgOK(s.args[j], defs), defs \cup {s.out}>>
    [] s.s = "const" -> <<~s.bad, defs \cup {s.out}>>
    [] s.s = "attrconst" -> <<ATTRN \in defs, defs \cup {s.out}>>
    [] s.s = "copy" -> <<ArgOK(s.rhs, defs), defs \cup {s.lhs}>>
    [] s.s = "pcopy" -> <<\A j \in 1..Len(s.rhss) : ArgOK(s.rhss[j], defs), defs \cup SeqSet(s.lhss)>>
    [] s.s = "if" -> LET t == Chk(s.th, defs) e == Chk(s.el, defs)
                     IN <<ArgOK(s.cond, defs) /\ t[1] /\ e[1], t[2] \cap e[2]>>
    [] s.s = "loop" -> LET \* a loop variable that the body assigns and reads first is a loop-carried variable for the
                           \* converter: it needs a definition in front of the loop (else: Unbound name)
                           d1 == IF s.iter = NONE \/ s.iter \in Assigned(s.body) THEN defs ELSE defs \cup {s.iter}
                           b == Chk(s.body, d1)
                       IN << /\ ArgOK(s.bound, defs)
                             /\ (s.iter # NONE /\ s.bound.a = "none" => s.brk = "ok")   \* range(None); design: a counter
                             /\ (s.cond # NONE => s.cond \in defs)
                             /\ s.brk # "ifnot"                                 \* `if not c: break` is refused
                             /\ b[1],
                             defs >>
Chk(ss, defs) == IF ss = <<>> THEN <<TRUE, defs>>
                 ELSE LET h == ChkStmt(Head(ss), defs) IN
                      IF ~h[1] THEN <<FALSE, defs>> ELSE Chk(Tail(ss), h[2])
Convertible(p) ==
  /\ ~p.indentBad
  /\ ~p.deadIf
  /\ Cardinality(SeqSet(p.params)) = Len(p.params)
  /\ p.opsetOK
  /\ (ATTRN \in Uses(p.body) => p.attrty = "float")
  /\ LET c == Chk(p.body, SeqSet(p.params) \cup {q[1] : q \in p.prebound})
     IN c[1] /\ \A j \in 1..Len(p.rets) : ArgOK(p.rets[j], c[2])

(* Python semantics of the program *)
\* (after a Poison some assignments were skipped: an unassigned name reads as Err)
Get(env, n) == IF n \in DOMAIN env THEN env[n] ELSE Err
ArgVal(a, env) == CASE a.a = "var" -> Get(env, a.n) [] a.a = "lit" -> Tok[a.tok].val [] a.a = "true" -> BoolV(TRUE)
\* a condition that is not BOOL / a trip count that is not INT64: the converted model is not loadable
POISON == <<"#">>
Poison(env) == (POISON :> Err) @@ env
RECURSIVE Exec(_, _), ExecLoop(_, _, _, _, _)
ExecStmt(s, env) ==
  CASE s.s = "call" -> (s.out :> ApplyOp(s.op, [j \in 1..Len(s.args) |-> ArgVal(s.args[j], env)])) @@ env
    [] s.s = "const" -> (s.out :> Tok[s.tok].val) @@ env
    [] s.s = "attrconst" -> (s.out :> Get(env, ATTRN)) @@ env
    [] s.s = "infix" -> LET a == [j \in 1..Len(s.args) |-> ArgVal(s.args[j], env)]
                        IN (s.out :> (IF s.negleft THEN FNeg(ApplyOp(s.op, <<FNeg(a[1]), a[2]>>))   \* -1.0 ** x = -(1.0 ** x)
                                      ELSE ApplyOp(s.op, a))) @@ env
    [] s.s = "copy" -> (s.lhs :> ArgVal(s.rhs, env)) @@ env
    [] s.s = "pcopy" -> [n \in SeqSet(s.lhss) |-> ArgVal(s.rhss[CHOOSE j \in 1..Len(s.lhss) : s.lhss[j] = n], env)] @@ env
    [] s.s = "if" -> IF ArgVal(s.cond, env).k # "b" THEN Poison(env)
                     ELSE IF Truth(ArgVal(s.cond, env)) THEN Exec(s.th, env) ELSE Exec(s.el, env)
    [] s.s = "loop" -> IF (s.bound.a # "none" /\ ArgVal(s.bound, env).k # "i") \/ (s.cond # NONE /\ Get(env, s.cond).k # "b") THEN Poison(env)
                       ELSE ExecLoop(s, env, 0, IF s.bound.a = "none" THEN -1 ELSE ArgVal(s.bound, env).v, 12)   \* range() is evaluated once
Exec(ss, env) == IF ss = <<>> THEN env ELSE Exec(Tail(ss), ExecStmt(Head(ss), env))
ExecLoop(s, env, i, n, fuel) ==
  IF fuel = 0 \/ (s.bound.a # "none" /\ i >= n) \/ (s.cond # NONE /\ ~Truth(Get(env, s.cond))) THEN env
  \* Python (and, since the fix af87660 in /repo, the converter): the loop variable is the iteration number at the start
  \* of every iteration even when the body assigns it
  ELSE ExecLoop(s, Exec(s.body, IF s.iter = NONE THEN env ELSE (s.iter :> IntV(i)) @@ env), i + 1, n, fuel - 1)
PyRun(p, tv) ==
  LET actual == <<tv.X, tv.N, tv.B>> \o (IF Len(p.params) > 3 THEN <<Num(2)>> ELSE <<>>)
      env0 == [n \in SeqSet(p.params) \cup {q[1] : q \in p.prebound} |->
                 IF n \in SeqSet(p.params) THEN actual[CHOOSE j \in 1..Len(p.params) : p.params[j] = n]
                 ELSE (CHOOSE q \in p.prebound : q[1] = n)[2]]
      env == Exec(p.body, env0)
  IN [j \in 1..Len(p.rets) |-> IF POISON \in DOMAIN env THEN Err ELSE ArgVal(p.rets[j], env)]

Expected == [t \in 1..Len(TV) |->
               LET env == EvalNodes(g.items, [i \in SeqSet(Inputs) \cup {p[1] : p \in InitPairs} |->
                                                IF i = "X" THEN TV[t].X ELSE IF i = "N" THEN TV[t].N ELSE IF i = "B" THEN TV[t].B
                                                ELSE Tok[(CHOOSE p \in InitPairs : p[1] = i)[2]].val])
               IN [j \in 1..Len(Outs) |-> env[Outs[j]]]]
TypeOf(v) == IF Numeric(v) THEN "f" ELSE v.k
\* "noconv" also covers a converted model that the runtime refuses (a value of the wrong type)
OutcomeOf(e, exp) == IF e.err # "" THEN "raise"
                     ELSE IF ~Convertible(e.prog) THEN "noconv"
                     ELSE LET r == [t \in 1..Len(TV) |-> PyRun(e.prog, TV[t])] IN
                          IF ~e.prog.sigOK THEN "diff"                      \* declared inputs / outputs changed
                          ELSE IF \A t \in 1..Len(TV) : r[t] = exp[t] THEN "ok"
                          ELSE IF \E t \in 1..Len(TV), j \in 1..Len(Outs) : TypeOf(r[t][j]) # TypeOf(exp[t][j]) THEN "noconv"
                          ELSE "diff"

-----------------------------------------------------------------------------
(* the state machine *)
NoCfg == [kind |-> "none"]
NoEx == [pc |-> 0]
NoRes == [impl |-> "none"]
Init == /\ g = [items |-> <<>>, inits |-> <<>>, ids |-> Inputs, n |-> 0, last |-> "X", prev |-> "X", out2 |-> "", tys |-> <<>>, len |-> 0, attr |-> FALSE, cf |-> 0, pk |-> ""]
        /\ stage = "gen" /\ cfg = NoCfg /\ ex = NoEx /\ res = NoRes

Bools == {FALSE, TRUE}
Kinds == (IF g.inits = <<>> THEN {"function"} ELSE {}) \cup (IF g.attr THEN {} ELSE {"model"})
\* The configuration space is not the full product: the option product is explored with default names and
\* types; the namings with and without rename only; the declared-type forms with default options only.
\* Quick tier, two-item graphs: after a constant only the inline_const half of the options.
ConfigOK(c) == /\ \/ (c.naming = {} /\ c.xty = ScalarT)
                  \/ (c.naming # {} /\ ~c.useops /\ (c.inline => g.inits # <<>>) /\ ~c.skip /\ c.xty = ScalarT)
                  \/ (c.naming = {} /\ c.xty # ScalarT /\ ~c.useops /\ ~c.inline /\ ~c.skip /\ (c.rename => c.xty.form = "dims"))
               /\ (g.len >= 2 => c.xty = ScalarT)
               /\ (c.xty.form = "dims" => ShapeGraph)
               /\ (~Thorough /\ g.len >= 2 /\ g.pk = "const" /\ ~g.attr => c.inline /\ ~c.rename /\ ~c.skip)
               /\ (~Thorough /\ Cardinality(c.naming) = 2 => ~c.rename)     \* short names collide exactly like cleaned ones
               /\ (Thorough /\ Cardinality(c.naming) = 2 /\ c.rename => Canonical(c.naming))
               \* thorough tier, two-item graphs: four option combinations (skip_initializers only with an initializer)
               /\ (Thorough /\ g.len >= 2 => /\ <<c.rename, c.useops, c.inline>> \in {<<FALSE, FALSE, FALSE>>, <<TRUE, TRUE, TRUE>>,
                                                                                      <<FALSE, FALSE, TRUE>>, <<TRUE, FALSE, FALSE>>}
                                              /\ (c.skip => g.inits # <<>>))
Cfg(kind, rn, uo, ic, sk, nm, xty) == [kind |-> kind, rename |-> rn, useops |-> uo, inline |-> ic, skip |-> sk, naming |-> nm, xty |-> xty]
\* the three slices of the configuration space, built directly (ConfigOK filters the tier-specific rest)
Configs(kind) ==
  {Cfg(kind, rn, uo, ic, sk, {}, ScalarT) : rn \in Bools, uo \in Bools, ic \in Bools, sk \in Bools}
  \cup {Cfg(kind, rn, FALSE, ic, FALSE, nm, ScalarT) : rn \in Bools, ic \in (IF g.inits # <<>> THEN Bools ELSE {FALSE}),
                                                         nm \in {n \in Namings : n # {} /\ WellFormedNaming(n)}}
  \cup {Cfg(kind, FALSE, FALSE, FALSE, FALSE, {}, AnyRankT)}
  \cup (IF ShapeGraph THEN {Cfg(kind, rn, FALSE, FALSE, FALSE, {}, DimsT(sh)) : rn \in Bools, sh \in ShapeMenu} ELSE {})
Configure ==
  /\ stage = "gen" /\ g.len >= 1
  /\ \E kind \in Kinds : \E c \in Configs(kind) :
       /\ (kind = "function" => ~c.skip /\ c.xty = ScalarT)           \* no effect on FunctionProto export
       /\ ConfigOK(c)
       /\ cfg' = c
  /\ stage' = "index"
  /\ UNCHANGED <<g, ex, res>>
\* _Exporter.__init__ / _names_used_in_function: the renamer tables, the constants and initializers, the
\* for-loops whose condition output is mapped back to the condition input
IndexNames ==
  /\ stage = "index"
  /\ LET CleanTab == [i \in SeqSet(AllIds) |-> CleanOf(i)]
         fl == Flat(g.items)
         cps == ConstPairsOf(fl)
         tps == cps \cup InitPairs
         ops == CoutPairsOf(fl)
     IN
     ex' = [pc |-> 1,
            tokof |-> [i \in {p[1] : p \in tps} |-> (CHOOSE p \in tps : p[1] = i)[2]],
            constids |-> {p[1] : p \in cps}, initids |-> {p[1] : p \in InitPairs},
            couts |-> [i \in {p[1] : p \in ops} |-> (CHOOSE p \in ops : p[1] = i)[2]],
            nm |-> [i \in SeqSet(AllIds) |-> Nm(i)], clean |-> CleanTab,
            pyc |-> PyTable({"cleanup_collision"}, CleanTab), pyu |-> PyTable({}, CleanTab),
            baseu |-> [i \in SeqSet(AllIds) |-> BaseName(i, {}, CleanTab)],
            attrty |-> IF \E i \in 1..Len(fl) : fl[i].k = "attrconst" THEN "float" ELSE "int",
            ann |-> [ann |-> "none", subs |-> <<>>], params |-> <<>>, code |-> <<>>, rets |-> <<>>, err |-> ""]
  /\ stage' = "sig"
  /\ UNCHANGED <<g, cfg, res>>
TranslateSignature ==
  /\ stage = "sig" /\ ex' = [ex EXCEPT !.params = SigParams(Deviations), !.ann = IF IsModel THEN SigAnn ELSE @]     \* _translate_signature / _translate_type
  /\ stage' = "inits" /\ UNCHANGED <<g, cfg, res>>
TranslateInitializers ==
  /\ stage = "inits" /\ ex' = [ex EXCEPT !.code = TrInits(Deviations)] /\ stage' = "nodes" /\ UNCHANGED <<g, cfg, res>>
TranslateTopNode ==
  /\ stage = "nodes" /\ ex.pc <= Len(g.items) /\ ~RaisesAt(g.items[ex.pc], Deviations)
  /\ ex' = [ex EXCEPT !.code = @ \o TrNode(g.items[ex.pc], Deviations), !.pc = @ + 1]
  /\ UNCHANGED <<g, cfg, stage, res>>
Dev_ForLoopNoScope ==            \* self._name_remappings[-1] on the empty list
  /\ stage = "nodes" /\ ex.pc <= Len(g.items) /\ RaisesAt(g.items[ex.pc], Deviations)
  /\ ex' = [ex EXCEPT !.err = "IndexError"] /\ stage' = "check" /\ UNCHANGED <<g, cfg, res>>
TranslateReturn ==
  /\ stage = "nodes" /\ ex.pc > Len(g.items)
  /\ ex' = [ex EXCEPT !.rets = Rets(Deviations)] /\ stage' = "check" /\ UNCHANGED <<g, cfg, res>>
Stepwise == IF ex.err # "" THEN [err |-> ex.err]
            ELSE [err |-> "", prog |-> Prog(ex.params, ex.code, ex.rets, Deviations)]
\* a deviation can only change the exported program when its guard holds (GuardsSound)
Guard(d) ==
  CASE d = "cleanup_collision" -> cfg.naming # {}
    [] d = "rename_signature" -> cfg.rename /\ IsModel
    [] d = "for_loop_no_scope" -> IsModel /\ DOMAIN ex.couts # {}
    [] d \in {"inline_const_nonref", "inline_nan_inf", "inline_init_key"} -> cfg.inline
    [] d = "loop_break_form" -> LET fl == FlatAll IN \E i \in 1..Len(fl) : fl[i].k = "loop" /\ UseCond(fl[i]) /\ (UseIter(fl[i]) \/ fl[i].cond = "")
    [] d = "loop_state_seq_copy" -> LET fl == FlatAll IN \E i \in 1..Len(fl) : fl[i].k = "loop" /\ Len(fl[i].inits) >= 2
    [] d = "infix_neg_literal_pow" -> cfg.useops /\ cfg.inline
    [] d = "no_default_opset" -> ~HasCall(Export({}).prog.body)
    [] d = "skip_init_indent" -> cfg.skip
    [] d = "init_double_rename" -> cfg.rename /\ g.inits # <<>>
    [] d = "dead_if_refused" -> g.cf >= 1
    [] d = "attr_nonfinite_repr" -> \E i \in ex.constids : Tok[ex.tokof[i]].form = "f"
Check ==
  /\ stage = "check"
  /\ LET exp == Expected
         alone == {<<d, OutcomeOf(Export({d}), exp)>> : d \in {x \in Deviations : Guard(x)}}
     IN res' = [impl |-> OutcomeOf(Stepwise, exp), design |-> OutcomeOf(Export({}), exp), expected |-> exp,
                alone |-> {p \in alone : p[2] # "ok"}, agrees |-> (Stepwise = Export(Deviations))]
  /\ stage' = "done" /\ UNCHANGED <<g, cfg, ex>>
Next == GenUn \/ GenBin \/ GenConst \/ GenPow \/ GenVec \/ GenInit \/ GenAttr \/ GenIf \/ GenLoop \/ Configure
        \/ IndexNames \/ TranslateSignature \/ TranslateInitializers \/ TranslateTopNode \/ Dev_ForLoopNoScope \/ TranslateReturn \/ Check
Spec == Init /\ [][Next]_vars

-----------------------------------------------------------------------------
(* properties *)
\* C13 at design level: the exported program converts and computes what the graph computes
DesignOK == stage = "done" => res.design = "ok"
\* every failure of the implementation model is already produced by one named deviation alone
DeviationsExplain == stage = "done" /\ res.impl # "ok" => res.alone # {}
\* the step-by-step exporter and the functional one are the same thing
StepwiseAgrees == stage = "done" => res.agrees
GuardsSound == stage = "done" => \A d \in AllDevs : ~Guard(d) => Export({d}) = Export({})
\* the property on the implementation model: expected to be VIOLATED (Export_canfail.cfg) - the invariant bites
ImplOK == stage = "done" => res.impl = "ok"
\* witnesses (each is expected to be violated)
NoOkImpl == ~(stage = "done" /\ res.impl = "ok" /\ g.cf >= 1 /\ cfg.kind = "model")
NoOkRenamed == ~(stage = "done" /\ res.impl = "ok" /\ cfg.rename /\ g.cf >= 1)
NoDiff == ~(stage = "done" /\ res.impl = "diff")
NoRaise == ~(stage = "done" /\ res.impl = "raise")
NoNoconv == ~(stage = "done" /\ res.impl = "noconv")
\* the witness runs only look at graphs made of one If / Loop item with default names
WitnessConstraint == (g.len = 0 \/ g.pk = "cf") /\ (cfg = NoCfg \/ cfg.naming = {})

(* case emission for the conformance harness: one JSON line per final state *)
CaseRec == [items |-> g.items, inits |-> g.inits, tys |-> g.tys, outs |-> Outs, attr |-> g.attr, cf |-> g.cf,
            kind |-> cfg.kind, rename |-> cfg.rename, useops |-> cfg.useops, inline |-> cfg.inline, skip |-> cfg.skip,
            xty |-> cfg.xty, special |-> cfg.naming # {},
            names |-> [i \in 1..Len(AllIds) |-> <<AllIds[i], Nm(AllIds[i]), CleanOf(AllIds[i])>>],
            impl |-> res.impl, design |-> res.design, alone |-> res.alone, expected |-> res.expected]
EmitCases == stage = "done" => PrintT("C13CASE " \o ToJson(CaseRec))
=============================================================================
