SPECIFICATION Spec
CONSTANTS
  MaxCalls = 3
  Names <- NamesDeep
  Deviations = {}
INVARIANT NamesWellFormed
INVARIANT OneFunctionPerPair
INVARIANT ValidatorSound
INVARIANT FirstWins
CHECK_DEADLOCK FALSE
