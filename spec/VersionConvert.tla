--------------------------- MODULE VersionConvert ---------------------------
(* C10: onnxscript.version_converter.convert_version, step by step.                              *)
(*                                                                                                *)
(* A behaviour first builds one configuration of the property's quantifier                        *)
(*   (s, t, entry, fb, items)   source/target opset, entry point, fallback flag, model contents   *)
(* (AddItem), then runs the pipeline of the code, one named action per critical step:             *)
(*   FromProto            version_converter/__init__.py convert_version: ir.from_proto            *)
(*   Inline               ConvertVersionPass._inline_pass (Inline + RemoveUnusedFunctions/Opsets) *)
(*   DecideNoop/DecideNative/DecideFallback   _ConvertVersionPassRequiresInline.call              *)
(*   Raise                visit_graph_or_function: target < node version (no down adapters)       *)
(*   SkipNode/BeginNode/EndNode               the `for node in graph` loop, custom domains skipped *)
(*   StepNoAdapter/StepAdapterNone/StepAdapterReplace/StepAdapterError  one visit_node(from->+1)  *)
(*   Dev_* / Design_*     the same steps where the code is known to depart from the design        *)
(*   SetOpset             visit_model: _set_onnx_opset_version on functions and model             *)
(*   NameFix              visit_model: NameFixPass when a node was replaced (TapeBuilder numbers   *)
(*                        its new values val_0, val_1, ... afresh for every replacement)            *)
(*   CApiStrip/CApiConvert/CApiRestore        _c_api_utils.call_onnx_api + onnx C converter        *)
(*   RecoverInitializers/TruncateInputs/SwapGraph   the tail of the fallback branch               *)
(*   Cleanup              ConvertVersionPass._cleanup_passes                                       *)
(*   ProtoCopyBack        convert_version: graph.Clear/CopyFrom, del functions[:]                 *)
(* Nodes are abstracted to what the ONNX checker looks at (op, #inputs, attribute names) plus a   *)
(* semantic tag `sem` that says for which opset generations the node computes what the author of  *)
(* the source model meant (Means).  The checker itself is modelled on the REAL operator schemas,  *)
(* dumped by the harness (C10_SCHEMAS).                                                           *)
(* Deviations (DESIGN 2.5): with Deviations = {} the module is the *design* and must satisfy     *)
(* Prop; with RealDevs it describes what the code does, `used` records which deviation steps a    *)
(* behaviour took, and Explained says every failure of Prop is due to one of them.                *)
EXTENDS Integers, Sequences, FiniteSets, TLC, Json, IOUtils

CONSTANTS Deviations,      \* subset of AllDevs
          Menu,            \* items allowed in a one-item model
          MultiMenu,       \* items allowed in models of two items
          TripleMenu,      \* items allowed in models of three and more items
          HistMenu, HistVersions, \* one-item models / opsets for two-call histories and stamped sources
          VarMenu, VarVersions, \* further one-item models (parameter sweeps) and the opsets they are tried with
          MaxItems,
          Sources, Targets, \* opset ranges
          Emitting         \* print one CASE line per finished configuration

VARIABLES s, t, entry, fb, items,          \* the configuration
          mid, stamp,                      \* history: convert to `mid` first (0: single call); nodes carry version = s
          stage, src,                      \* which call is running (1|2); opset the model declared when it started
          pc, path,
          nodes, orig,                     \* IR graph (flat, with place tags); forms before conversion
          funcs, fnDecl, declared,         \* model-local functions still present, their / the model's opset
          cur, fv, modified,               \* visit cursor, from_version of the inner loop
          clash,                           \* two values visible to each other carry the same name
          gin, ginit,                      \* IR graph inputs (sequence of names) / initializer names
          cin, cinit, cnodes,              \* the C-API side: converted model's inputs / initializers / nodes
          pOpset, pNodes, pFuncs, pIn, pInit,   \* the caller's ModelProto (entry = "proto")
          used                             \* deviation steps taken
vars == <<s, t, entry, fb, items, mid, stamp, stage, src, pc, path, nodes, orig, funcs, fnDecl, declared, cur, fv, modified, clash,
          gin, ginit, cin, cinit, cnodes, pOpset, pNodes, pFuncs, pIn, pInit, used>>

\* proto_opset_stale, dft_default_axis_changed and groupnorm_epsilon_dropped are FIXED in the code
\* (known_findings.json "fixed"; the harness removes fixed ids from Deviations): their deviation
\* branches stay here so that a regression re-introducing one of them is a property failure that
\* the implementation model does not explain (an unexplained VIOLATION), and the design branch of
\* each is what the fixed code does.
AllDevs == {"proto_opset_stale", "adapter_error_swallowed", "groupnorm_unknown_shape_skipped",
            "dft_default_axis_changed", "groupnorm_epsilon_dropped", "subgraph_name_clash"}
SUPPORTED_MIN == 18
SUPPORTED_MAX == 25

-----------------------------------------------------------------------------
(* the real operator schemas *)
Schemas == JsonDeserialize(IOEnv.C10_SCHEMAS)
Range(q) == {q[i] : i \in DOMAIN q}
SchemaOps == {Schemas[i].op : i \in DOMAIN Schemas}
SchemaAt == [op \in SchemaOps |-> [v \in 17..26 |->
               LET C == {i \in DOMAIN Schemas : Schemas[i].op = op /\ Schemas[i].since <= v}
               IN Schemas[CHOOSE i \in C : \A j \in C : Schemas[j].since <= Schemas[i].since]]]
\* onnx.checker.check_model on one node under default-domain opset v (custom domains are not checked)
CheckerOK(n, v) == \/ n.dom # ""
                   \/ LET sc == SchemaAt[n.op][v] IN
                      /\ ~sc.deprecated
                      /\ n.nin >= sc.min_in /\ n.nin <= sc.max_in
                      /\ n.attrs \subseteq Range(sc.attrs)
\* opset at which the operator's definition last changed before generation v+1: an adapter is
\* *needed* at v -> v+1 only if some schema has since = v+1
ChangesAt(op, v) == \E i \in DOMAIN Schemas : Schemas[i].op = op /\ Schemas[i].since = v + 1

-----------------------------------------------------------------------------
(* nodes *)
N(op, nin, attrs, sem, aux) == [op |-> op, nin |-> nin, attrs |-> attrs, sem |-> sem, aux |-> aux,
                                dom |-> "", ver |-> 0, place |-> "top", item |-> 0,
                                fresh |-> FALSE]     \* output named by TapeBuilder (val_k)
Form(n) == [op |-> n.op, nin |-> n.nin, attrs |-> n.attrs, sem |-> n.sem, dom |-> n.dom]
IsCall(n) == n.sem = "call"
Forms(ns) == LET body == SelectSeq(ns, LAMBDA n : ~IsCall(n)) IN [i \in DOMAIN body |-> Form(body[i])]

\* What a node computes under default-domain opset v, relative to what the source model meant:
\*   "ok" the intended function, "other" a different function, "norun" the runtime refuses it.
Means(sem, v) ==
  CASE sem = "dft.attr"     -> IF v < 20 THEN "ok" ELSE "norun"     \* axis attribute exists only in DFT-17
    [] sem = "dft.in"       -> IF v >= 20 THEN "ok" ELSE "norun"    \* axis input exists only in DFT-20
    [] sem = "dft.def1.r4"  -> IF v < 20 THEN "ok" ELSE "other"     \* default axis 1 (DFT-17) vs -2 (DFT-20), rank 4
    [] sem = "dft.defm2.r4" -> IF v >= 20 THEN "ok" ELSE "other"
    [] sem = "gs.old"       -> IF v < 20 THEN "ok" ELSE "norun"     \* mode bilinear/bicubic: GridSample-16 only
    [] sem = "gs.new"       -> IF v >= 20 THEN "ok" ELSE "norun"    \* mode linear/cubic: GridSample-20 on
    [] sem = "gn.group"     -> IF v < 21 THEN "ok" ELSE "norun"     \* scale/bias per group: GroupNormalization-18
    [] sem = "gn.chan"      -> IF v >= 21 THEN "ok" ELSE "norun"    \* per channel: GroupNormalization-21
    [] sem = "gn.chan.eps"  -> IF v >= 21 THEN "other" ELSE "norun" \* per channel, but epsilon lost
    [] OTHER                -> "ok"                                 \* plain, dft.def.r3, gn.both, call, ...

\* Item parameters: one uniform record; every kind reads its own fields.  The harness builds the
\* concrete node from exactly these values (ax = 99: no axis given; al = -1, md/pd = "": attribute absent).
D == [ax |-> 99, rk |-> 0, os |-> 0, iv |-> 0, ln |-> 0, md |-> "", pd |-> "", al |-> -1,
      ch |-> 0, gr |-> 0, ep |-> 0, nb |-> 0, sh |-> "", big |-> FALSE, ovr |-> FALSE]
Dft(ax, rk, os, iv, ln) == [D EXCEPT !.ax = ax, !.rk = rk, !.os = os, !.iv = iv, !.ln = ln]
Gs(md, pd, al) == [D EXCEPT !.md = md, !.pd = pd, !.al = al]
Gn(ch, gr, ep, rk, nb, sh) == [D EXCEPT !.ch = ch, !.gr = gr, !.ep = ep, !.rk = rk, !.nb = nb, !.sh = sh]
AddP(big, ovr) == [D EXCEPT !.big = big, !.ovr = ovr]

\* The concrete node(s) of an item kind at source opset sv (what the harness builds)
GNSem(sv) == IF sv < 21 THEN "gn.group" ELSE "gn.chan"
KindNodes(kind, par, sv) ==
  CASE kind = "relu"   -> <<N("Relu", 1, {}, "plain", "")>>
    [] kind = "cast"   -> <<N("Cast", 1, {"to"}, "plain", "int")>>
    [] kind = "custom" -> <<[N("Gelu", 1, {}, "plain", "") EXCEPT !.dom = "com.microsoft"]>>
    [] kind = "add"    -> <<N("Add", 2, {}, "plain", "")>>        \* x + initializer (par.big / par.ovr)
    [] kind = "dft" ->
         \* DFT-17: axis/inverse/onesided attributes, inputs (x, dft_length?); default axis 1
         \* DFT-20: inverse/onesided attributes, inputs (x, dft_length?, axis?); default axis -2
         IF par.ax = 99
         THEN <<N("DFT", 1, {}, IF par.rk = 3 THEN "dft.def.r3"        \* axis 1 = -2 on rank 3
                                ELSE IF sv < 20 THEN "dft.def1.r4" ELSE "dft.defm2.r4", "")>>
         ELSE LET flags == (IF par.os = 1 THEN {"onesided"} ELSE {}) \cup (IF par.iv = 1 THEN {"inverse"} ELSE {}) IN
              IF sv < 20 THEN <<N("DFT", IF par.ln > 0 THEN 2 ELSE 1, {"axis"} \cup flags, "dft.attr", "")>>
              ELSE <<N("DFT", 3, flags, "dft.in", "")>>
    [] kind = "gs" ->
         \* mode names bilinear/bicubic (GridSample-16) became linear/cubic in GridSample-20
         LET attrs == (IF par.md # "" THEN {"mode"} ELSE {}) \cup (IF par.pd # "" THEN {"padding_mode"} ELSE {})
                      \cup (IF par.al >= 0 THEN {"align_corners"} ELSE {}) IN
         <<N("GridSample", 2, attrs, IF par.md \in {"bilinear", "bicubic"}
                                      THEN (IF sv < 20 THEN "gs.old" ELSE "gs.new") ELSE "plain", "")>>
    [] kind = "gn" ->
         LET attrs == {"num_groups"} \cup (IF par.ep = 1 THEN {"epsilon"} ELSE {})
             gn == IF par.ch = par.gr THEN N("GroupNormalization", 3, attrs, "gn.both", "geqc")
                   ELSE N("GroupNormalization", 3, attrs, GNSem(sv), par.sh)
             id == N("Identity", 1, {}, "plain", "") IN
         CASE par.sh = "nox" -> <<id, gn>>                             \* x has no shape information
           [] par.sh = "nosc" -> <<id, id, gn>>                        \* scale and bias have none
           [] OTHER -> <<gn>>
\* initializers an item brings: <<name suffix, big (> 1000 elements), also a graph input>>
KindInits(kind, par, sv) ==
  CASE kind = "add" -> {<<"w", par.big, par.ovr>>}
    [] kind = "dft" /\ par.ax # 99 -> (IF sv >= 20 THEN {<<"ax", FALSE, FALSE>>} ELSE {})
                                      \cup (IF par.ln > 0 THEN {<<"ln", FALSE, FALSE>>} ELSE {})
    [] OTHER -> {}
\* graph inputs of an item (name suffixes), in order; the overridable initializer is among them
KindInputs(kind, par) ==
  CASE kind = "gs" -> <<"x", "g">>
    [] kind = "gn" -> <<"x", "sc", "b">>
    [] kind = "add" /\ par.ovr -> <<"x", "w">>
    [] OTHER -> <<"x">>

Tag(ns, p, i) == [k \in DOMAIN ns |-> [ns[k] EXCEPT !.place = p, !.item = i]]
ItemNodes(it, i, sv) ==
  LET body == KindNodes(it.kind, it.par, sv) IN
  CASE it.place = "top" -> Tag(body, "top", i)
    [] it.place = "func" -> <<[N("F", 0, {}, "call", "") EXCEPT !.dom = "local", !.item = i]>> \o Tag(body, "func", i)
    [] it.place = "ifbody" ->
         \* If(c) { then: body } { else: body ; Neg }  (helper.make_node sorts attributes: else first)
         Tag(<<N("If", 1, {"else_branch", "then_branch"}, "plain", "")>>, "top", i)
         \o Tag(body, "ifbody", i)
         \o (IF body[1].aux = "int" THEN <<>> ELSE Tag(<<N("Neg", 1, {}, "plain", "")>>, "ifbody", i))
         \o Tag(body, "ifbody", i)
    [] it.place = "loopbody" ->
         \* Loop(m, k) { body: cond = Identity(cond_in); scan output = body }  (two iterations)
         Tag(<<N("Loop", 2, {"body"}, "plain", "")>>, "top", i)
         \o Tag(<<N("Identity", 1, {}, "plain", "")>>, "ifbody", i) \o Tag(body, "ifbody", i)
RECURSIVE AllNodes(_, _, _)
AllNodes(its, i, sv) == IF i > Len(its) THEN <<>> ELSE ItemNodes(its[i], i, sv) \o AllNodes(its, i + 1, sv)
Name(i, suffix) == <<i, suffix>>
RECURSIVE AllInputs(_, _)
AllInputs(its, i) == IF i > Len(its) THEN <<>>
                     ELSE LET ks == KindInputs(its[i].kind, its[i].par) IN
                          [k \in DOMAIN ks |-> Name(i, ks[k])]
                          \o (IF its[i].place = "ifbody" THEN <<Name(i, "c")>> ELSE <<>>)
                          \o (IF its[i].place = "loopbody" THEN <<Name(i, "m"), Name(i, "k")>> ELSE <<>>)
                          \o AllInputs(its, i + 1)
InitRecs(its, sv) == UNION {{[name |-> Name(i, r[1]), big |-> r[2], isInput |-> r[3]] : r \in KindInits(its[i].kind, its[i].par, sv)} : i \in DOMAIN its}
InitNames(its, sv) == {r.name : r \in InitRecs(its, sv)}
BigInits(its, sv) == {r.name : r \in {q \in InitRecs(its, sv) : q.big}}
FuncIds(its) == {i \in DOMAIN its : its[i].place = "func"}

-----------------------------------------------------------------------------
(* adapters: _version_converter.py dft_19_20 / gridsample_19_20 / groupnormalization_20_21 *)
AdapterKeys == {<<"DFT", 19>>, <<"GridSample", 19>>, <<"GroupNormalization", 20>>}
HasAdapter(n, v) == <<n.op, v>> \in AdapterKeys
\* the last replacement node inherits the old output name, the others get fresh names val_0, val_1, ...
New(n, op, nin, attrs, sem, v) == [n EXCEPT !.op = op, !.nin = nin, !.attrs = attrs, !.sem = sem, !.ver = v, !.aux = "", !.fresh = FALSE]
Tmp(n, op, nin, attrs, v) == [New(n, op, nin, attrs, "plain", v) EXCEPT !.fresh = TRUE]
Const(n, a, v) == Tmp(n, "Constant", 0, {a}, v)

\* outcome of calling the registered adapter on node n: <<"none">> | <<"error">> | <<"replace", nodes>>
\* (v + 1 is the version given to replacement nodes).  `devs` selects code vs design behaviour.
AdapterOutcome(n, v, devs) ==
  CASE n.op = "DFT" ->
         IF "axis" \in n.attrs
         THEN <<"replace", <<Const(n, "value_int", v + 1),
                             New(n, "DFT", 3, (n.attrs \ {"axis"}) \cup {"inverse", "onesided"}, "dft.in", v + 1)>>>>
         ELSE IF "dft_default_axis_changed" \notin devs
         THEN <<"replace", <<Const(n, "value_int", v + 1),          \* design = code since eaf739e: the old default
                             New(n, "DFT", 3, (n.attrs \cup {"inverse", "onesided"}), "dft.in", v + 1)>>>>  \* (axis 1) is made explicit, whatever the rank
         ELSE <<"none">>                                            \* FIXED deviation: `return None` when no axis attribute
    [] n.op = "GridSample" ->
         IF n.sem = "gs.old"
         THEN <<"replace", <<New(n, "GridSample", 2, {"align_corners", "mode", "padding_mode"}, "gs.new", v + 1)>>>>
         ELSE <<"none">>
    [] n.op = "GroupNormalization" ->
         IF n.aux = "nox" THEN <<"error">>                          \* x.shape is None -> VersionConverterError
         ELSE IF n.aux \in {"symc", "nosc"}
         THEN (IF "groupnorm_unknown_shape_skipped" \in devs THEN <<"none">> ELSE <<"error">>)
         ELSE IF n.aux = "geqc" THEN <<"none">>                     \* num_groups = C: nothing to do
         ELSE IF n.sem = "gn.group"
         THEN LET keepEps == "groupnorm_epsilon_dropped" \notin devs /\ "epsilon" \in n.attrs IN
              <<"replace", <<Const(n, "value_ints", v + 1), Const(n, "value_ints", v + 1), Const(n, "value_ints", v + 1),
                             Tmp(n, "Reshape", 2, {}, v + 1), Tmp(n, "Expand", 2, {}, v + 1),
                             Tmp(n, "Reshape", 2, {}, v + 1), Tmp(n, "Reshape", 2, {}, v + 1),
                             Tmp(n, "Expand", 2, {}, v + 1), Tmp(n, "Reshape", 2, {}, v + 1),
                             New(n, "GroupNormalization", 3,
                                 IF keepEps THEN {"epsilon", "num_groups"} ELSE {"num_groups"},
                                 IF "epsilon" \in n.attrs /\ ~keepEps THEN "gn.chan.eps" ELSE "gn.chan", v + 1)>>>>
         ELSE <<"none">>
    [] OTHER -> <<"none">>

-----------------------------------------------------------------------------
(* The onnx C-API converter (external to onnxscript; ASSUMPTION checked by conformance): it has no *)
(* down adapter for GridSample 20->19, GroupNormalization 21->20, nor for a DFT-20 whose axis is   *)
(* not a constant initializer (call_onnx_api turns initializers into inputs); a DFT-20 without     *)
(* axis input gets an explicit axis attribute; everything else here is carried over unchanged.     *)
Crosses(b, from, to) == to < b /\ b <= from
CApiFails(ns, from, to) == \E k \in DOMAIN ns : LET n == ns[k] IN
   \/ n.op = "GridSample" /\ Crosses(20, from, to)
   \/ n.op = "GroupNormalization" /\ Crosses(21, from, to)
   \/ n.op = "DFT" /\ n.nin = 3 /\ Crosses(20, from, to)
CApiNode(n, from, to) ==
   IF n.op = "DFT" /\ n.nin = 1 /\ Crosses(20, from, to)
   THEN [n EXCEPT !.attrs = {"axis"}, !.sem = "dft.attr", !.ver = 0]
   ELSE [n EXCEPT !.ver = 0]

-----------------------------------------------------------------------------
I(k, p, par) == [kind |-> k, place |-> p, par |-> par]
\* (the first item of a longer model must already come from the smaller menu: models grow by AddItem)
\* items of VarMenu (the attribute/shape domains of the adapter ops) form one-item models, for the
\* opset pairs in VarVersions x VarVersions
\* histories of two calls and version-stamped sources are explored on the one-item models of HistMenu
Admissible(its) == CASE mid # 0 \/ stamp -> Len(its) = 1 /\ its[1] \in HistMenu
                     [] Len(its) = 1 -> \/ its[1] \in Menu
                                        \/ its[1] \in VarMenu /\ s \in VarVersions /\ t \in VarVersions
                     [] Len(its) = 2 -> \A i \in DOMAIN its : its[i] \in MultiMenu
                     [] OTHER -> \A i \in DOMAIN its : its[i] \in TripleMenu

Init == /\ s \in Sources /\ t \in Targets /\ entry \in {"ir", "proto"} /\ fb \in BOOLEAN
        /\ mid \in {0} \cup HistVersions /\ stamp \in BOOLEAN /\ stage = 1 /\ src = 0
        /\ (mid # 0 \/ stamp) => /\ s \in HistVersions /\ t \in HistVersions /\ mid # s /\ mid # t
                                 /\ ~(mid # 0 /\ stamp) /\ (stamp => entry = "ir")
        /\ items = <<>> /\ pc = "build" /\ path = "none"
        /\ nodes = <<>> /\ orig = <<>> /\ funcs = {} /\ fnDecl = 0 /\ declared = 0
        /\ cur = 0 /\ fv = 0 /\ modified = FALSE /\ clash = FALSE
        /\ gin = <<>> /\ ginit = {} /\ cin = <<>> /\ cinit = {} /\ cnodes = <<>>
        /\ pOpset = 0 /\ pNodes = <<>> /\ pFuncs = {} /\ pIn = <<>> /\ pInit = {}
        /\ used = {}

cfgVars == <<s, t, entry, fb, items, mid, stamp>>
capiVars == <<cin, cinit, cnodes>>
protoVars == <<pOpset, pNodes, pFuncs, pIn, pInit>>
irVars == <<nodes, funcs, fnDecl, declared, gin, ginit>>
loopVars == <<cur, fv, modified, clash>>

AddItem == /\ pc = "build" /\ Len(items) < MaxItems
           /\ \E it \in Menu \cup VarMenu \cup MultiMenu \cup TripleMenu \cup HistMenu :
                 /\ Admissible(Append(items, it))
                 /\ items' = Append(items, it)
           /\ UNCHANGED <<s, t, entry, fb, mid, stamp, pc, path, orig, stage, src, used>> /\ UNCHANGED irVars
           /\ UNCHANGED loopVars /\ UNCHANGED capiVars /\ UNCHANGED protoVars

\* The caller's model M: an ir.Model (entry "ir") or a ModelProto that is deserialised first.
\* stamp: the in-memory model comes from a builder/exporter that sets node.version on every node
Stamped(ns) == [k \in DOMAIN ns |-> IF stamp /\ ns[k].dom = "" THEN [ns[k] EXCEPT !.ver = s] ELSE ns[k]]
FromProto == /\ pc = "build" /\ Len(items) >= 1
             /\ nodes' = Stamped(AllNodes(items, 1, s))
             /\ stage' = 1 /\ src' = s
             /\ funcs' = FuncIds(items) /\ fnDecl' = s /\ declared' = s
             /\ gin' = AllInputs(items, 1) /\ ginit' = InitNames(items, s)
             /\ orig' = Forms(AllNodes(items, 1, s))
             /\ (IF entry = "proto"
                 THEN /\ pOpset' = s /\ pNodes' = AllNodes(items, 1, s) /\ pFuncs' = FuncIds(items)
                      /\ pIn' = AllInputs(items, 1) /\ pInit' = InitNames(items, s)
                 ELSE UNCHANGED protoVars)
             /\ pc' = "inline"
             /\ UNCHANGED cfgVars /\ UNCHANGED <<path, used>> /\ UNCHANGED loopVars /\ UNCHANGED capiVars

\* InlinePass + RemoveUnusedFunctionsPass (+ RemoveUnusedOpsetsPass): call nodes replaced by bodies
Inline == /\ pc = "inline"
          /\ nodes' = LET body == SelectSeq(nodes, LAMBDA n : ~IsCall(n))
                      IN [k \in DOMAIN body |-> IF body[k].place = "func" THEN [body[k] EXCEPT !.place = "top"] ELSE body[k]]
          /\ funcs' = {}
          /\ pc' = "decide"
          /\ UNCHANGED cfgVars /\ UNCHANGED <<path, orig, stage, src, fnDecl, declared, gin, ginit, used>>
          /\ UNCHANGED loopVars /\ UNCHANGED capiVars /\ UNCHANGED protoVars

\* the target of the call that is running
Tgt == IF mid # 0 /\ stage = 1 THEN mid ELSE t
VersionSupported == SUPPORTED_MIN <= declared /\ declared <= Tgt /\ Tgt <= SUPPORTED_MAX
DecideNoop == /\ pc = "decide" /\ declared = Tgt
              /\ path' = "noop" /\ pc' = "cleanup"
              /\ UNCHANGED cfgVars /\ UNCHANGED <<orig, stage, src, used>> /\ UNCHANGED irVars
              /\ UNCHANGED loopVars /\ UNCHANGED capiVars /\ UNCHANGED protoVars
DecideNative == /\ pc = "decide" /\ declared # Tgt /\ (~fb \/ VersionSupported)
                /\ path' = "native" /\ pc' = "visit" /\ cur' = 1 /\ fv' = 0 /\ modified' = FALSE /\ UNCHANGED clash
                /\ UNCHANGED cfgVars /\ UNCHANGED <<orig, stage, src, used>> /\ UNCHANGED irVars
                /\ UNCHANGED capiVars /\ UNCHANGED protoVars
DecideFallback == /\ pc = "decide" /\ declared # Tgt /\ fb /\ ~VersionSupported
                  /\ path' = "fallback" /\ pc' = "capi_strip"
                  /\ UNCHANGED cfgVars /\ UNCHANGED <<orig, stage, src, used>> /\ UNCHANGED irVars
                  /\ UNCHANGED loopVars /\ UNCHANGED capiVars /\ UNCHANGED protoVars

-----------------------------------------------------------------------------
(* native path: _VersionConverter.visit_model *)
AtNode == pc = "visit" /\ cur <= Len(nodes)
Cur == nodes[cur]
NodeVersion(n) == IF n.ver # 0 THEN n.ver ELSE declared          \* node.version or default opset
Keep == /\ UNCHANGED cfgVars /\ UNCHANGED <<path, orig, stage, src, funcs, fnDecl, declared, gin, ginit, clash>>
        /\ UNCHANGED capiVars /\ UNCHANGED protoVars

SkipNode == /\ AtNode /\ fv = 0 /\ Cur.dom # ""                  \* `if node.domain != "": continue`
            /\ cur' = cur + 1 /\ UNCHANGED <<fv, modified, nodes, pc, used>> /\ Keep
\* down-conversion is refused at the first default-domain node: the exception leaves the pass
Raise == /\ AtNode /\ fv = 0 /\ Cur.dom = "" /\ Tgt < NodeVersion(Cur)
         /\ path' = "raised" /\ pc' = "done"
         /\ UNCHANGED cfgVars /\ UNCHANGED <<orig, stage, src, used>> /\ UNCHANGED irVars
         /\ UNCHANGED loopVars /\ UNCHANGED capiVars /\ UNCHANGED protoVars
BeginNode == /\ AtNode /\ fv = 0 /\ Cur.dom = "" /\ NodeVersion(Cur) <= Tgt
             /\ IF NodeVersion(Cur) = Tgt THEN cur' = cur + 1 /\ fv' = 0      \* empty range(node_version, target)
                ELSE cur' = cur /\ fv' = NodeVersion(Cur)
             /\ UNCHANGED <<modified, nodes, pc, used>> /\ Keep
Advance == IF fv + 1 = Tgt THEN cur' = cur + 1 /\ fv' = 0 ELSE cur' = cur /\ fv' = fv + 1
InStep == AtNode /\ fv # 0 /\ fv < Tgt
SetVer(v) == nodes' = [nodes EXCEPT ![cur].ver = v]

StepNoAdapter == /\ InStep /\ ~HasAdapter(Cur, fv)
                 /\ SetVer(fv + 1) /\ Advance
                 /\ UNCHANGED <<modified, pc, used>> /\ Keep
StepAdapterNone == /\ InStep /\ HasAdapter(Cur, fv)
                   /\ AdapterOutcome(Cur, fv, Deviations)[1] = "none"
                   /\ SetVer(fv + 1) /\ Advance
                   /\ used' = used \cup
                        (IF AdapterOutcome(Cur, fv, {})[1] = "none" THEN {}
                         ELSE IF Cur.op = "DFT" THEN {"dft_default_axis_changed"} ELSE {"groupnorm_unknown_shape_skipped"})
                   /\ UNCHANGED <<modified, pc>> /\ Keep
\* replacement nodes enter at fv+1 right after the node, the node is removed; the loop over the
\* (detached) old node goes on without effect, then the iteration reaches the new nodes
StepAdapterReplace == /\ InStep /\ HasAdapter(Cur, fv)
                      /\ AdapterOutcome(Cur, fv, Deviations)[1] = "replace"
                      /\ LET new == AdapterOutcome(Cur, fv, Deviations)[2] IN
                         /\ nodes' = SubSeq(nodes, 1, cur - 1) \o new \o SubSeq(nodes, cur + 1, Len(nodes))
                         /\ used' = used \cup (IF new # AdapterOutcome(Cur, fv, {})[2] THEN {"groupnorm_epsilon_dropped"} ELSE {})
                      /\ cur' = cur /\ fv' = 0 /\ modified' = TRUE
                      /\ UNCHANGED pc /\ Keep
\* code: VersionConverterError is caught around each visit_node, logged, and the loop goes on
Dev_StepAdapterErrorSwallowed ==
                      /\ InStep /\ HasAdapter(Cur, fv) /\ "adapter_error_swallowed" \in Deviations
                      /\ AdapterOutcome(Cur, fv, Deviations)[1] = "error"
                      /\ Advance /\ used' = used \cup {"adapter_error_swallowed"}
                      /\ UNCHANGED <<modified, nodes, pc>> /\ Keep
\* design: a conversion that cannot be carried out leaves the model as it was (all or nothing)
Design_AbortUnchanged ==
                      /\ InStep /\ HasAdapter(Cur, fv) /\ "adapter_error_swallowed" \notin Deviations
                      /\ AdapterOutcome(Cur, fv, Deviations)[1] = "error"
                      /\ nodes' = [k \in DOMAIN orig |-> [N(orig[k].op, orig[k].nin, orig[k].attrs, orig[k].sem, "")
                                                           EXCEPT !.dom = orig[k].dom]]
                      /\ path' = "unsupported" /\ pc' = "cleanup"
                      /\ UNCHANGED cfgVars /\ UNCHANGED <<orig, stage, src, funcs, fnDecl, declared, gin, ginit, used>>
                      /\ UNCHANGED loopVars /\ UNCHANGED capiVars /\ UNCHANGED protoVars
\* after the graph the remaining functions are visited (none are left after inlining), then
\* _set_onnx_opset_version(function) / (model)
SetOpset == /\ pc = "visit" /\ cur > Len(nodes)
            /\ declared' = Tgt /\ fnDecl' = (IF funcs = {} THEN fnDecl ELSE Tgt)
            /\ pc' = IF modified THEN "namefix" ELSE "cleanup"
            /\ UNCHANGED cfgVars /\ UNCHANGED <<path, orig, stage, src, nodes, funcs, gin, ginit, used>>
            /\ UNCHANGED loopVars /\ UNCHANGED capiVars /\ UNCHANGED protoVars
\* `if self._modified: NameFixPass()(model)`.  Every replacement numbered its new values from val_0.
\* The pass walks the graph in order and renames a value whose name is already taken in the scopes
\* visible *so far*; a name given inside an If branch is therefore kept, and so is the same name
\* given later at the top level: the outer value is visible in the branch under the same name
\* (not SSA; ONNX Runtime refuses the model, onnx.checker does not notice).
\* Design: all names are made unique.
InnerThenOuter(ns) == \E i, j \in DOMAIN ns : /\ i < j /\ ns[i].fresh /\ ns[j].fresh
                                              /\ ns[i].place = "ifbody" /\ ns[j].place = "top"
NameFix == /\ pc = "namefix"
           /\ IF "subgraph_name_clash" \in Deviations /\ InnerThenOuter(nodes)
              THEN clash' = TRUE /\ used' = used \cup {"subgraph_name_clash"}
              ELSE clash' = FALSE /\ used' = used
           /\ pc' = "cleanup"
           /\ UNCHANGED cfgVars /\ UNCHANGED <<path, orig, stage, src, cur, fv, modified>> /\ UNCHANGED irVars
           /\ UNCHANGED capiVars /\ UNCHANGED protoVars

-----------------------------------------------------------------------------
(* fallback path *)
\* call_onnx_api: initializers appended to the inputs, big ones lose their value; serialise
CApiStrip == /\ pc = "capi_strip"
             /\ LET extra == ginit \ Range(gin)
                    RECURSIVE SeqOf(_)
                    SeqOf(S) == IF S = {} THEN <<>> ELSE LET x == CHOOSE y \in S : TRUE IN <<x>> \o SeqOf(S \ {x})
                IN cin' = gin \o SeqOf(extra)
             /\ cinit' = ginit \ BigInits(items, s)
             /\ cnodes' = nodes
             /\ pc' = "capi_convert"
             /\ UNCHANGED cfgVars /\ UNCHANGED <<path, orig, stage, src, used>> /\ UNCHANGED irVars
             /\ UNCHANGED loopVars /\ UNCHANGED protoVars
\* onnx.version_converter.convert_version(proto, target); the `finally` of call_onnx_api restores
\* the IR model (initializer values, inputs) whatever happened
CApiConvert == /\ pc = "capi_convert"
               /\ IF CApiFails(cnodes, declared, Tgt)
                  THEN /\ path' = "fallback_failed" /\ pc' = "cleanup"      \* "The model was not modified"
                       /\ UNCHANGED cnodes
                  ELSE /\ cnodes' = [k \in DOMAIN cnodes |-> CApiNode(cnodes[k], declared, Tgt)]
                       /\ path' = "fallback_ok" /\ pc' = "recover"
               /\ UNCHANGED cfgVars /\ UNCHANGED <<orig, stage, src, cin, cinit, used>> /\ UNCHANGED irVars
               /\ UNCHANGED loopVars /\ UNCHANGED protoVars
\* for input in converted.inputs: if input.name in model.graph.initializers: value back + register
RecoverInitializers == /\ pc = "recover"
                       /\ cinit' = cinit \cup (Range(cin) \cap ginit)
                       /\ pc' = "truncate"
                       /\ UNCHANGED cfgVars /\ UNCHANGED <<path, orig, stage, src, cin, cnodes, used>> /\ UNCHANGED irVars
                       /\ UNCHANGED loopVars /\ UNCHANGED protoVars
\* user_inputs = converted.inputs[:len(model.graph.inputs)]
TruncateInputs == /\ pc = "truncate"
                  /\ cin' = SubSeq(cin, 1, Len(gin))
                  /\ pc' = "swap"
                  /\ UNCHANGED cfgVars /\ UNCHANGED <<path, orig, stage, src, cinit, cnodes, used>> /\ UNCHANGED irVars
                  /\ UNCHANGED loopVars /\ UNCHANGED protoVars
\* model.graph = converted_model.graph  (opset_imports live on the graph: declared follows)
SwapGraph == /\ pc = "swap"
             /\ nodes' = cnodes /\ gin' = cin /\ ginit' = cinit /\ declared' = Tgt
             /\ pc' = "cleanup"
             /\ UNCHANGED cfgVars /\ UNCHANGED <<path, orig, stage, src, funcs, fnDecl, used>>
             /\ UNCHANGED loopVars /\ UNCHANGED capiVars /\ UNCHANGED protoVars

-----------------------------------------------------------------------------
\* RemoveUnusedNodes/Functions/Opsets: nothing to remove in these models
Cleanup == /\ pc = "cleanup"
           /\ pc' = IF entry = "proto" THEN "copyback" ELSE "done"
           /\ UNCHANGED cfgVars /\ UNCHANGED <<path, orig, stage, src, used>> /\ UNCHANGED irVars
           /\ UNCHANGED loopVars /\ UNCHANGED capiVars /\ UNCHANGED protoVars
\* model_proto.graph.Clear(); del model_proto.functions[:]; graph.CopyFrom(to_proto(model.graph))
\* code: model_proto.opset_import is not touched
ProtoCopyBack == /\ pc = "copyback"
                 /\ pNodes' = nodes /\ pFuncs' = {} /\ pIn' = gin /\ pInit' = ginit
                 /\ IF "proto_opset_stale" \in Deviations
                    THEN /\ pOpset' = pOpset
                         /\ used' = used \cup (IF declared # pOpset THEN {"proto_opset_stale"} ELSE {})
                    ELSE pOpset' = declared /\ used' = used
                 /\ pc' = "done"
                 /\ UNCHANGED cfgVars /\ UNCHANGED <<path, orig, stage, src>> /\ UNCHANGED irVars
                 /\ UNCHANGED loopVars /\ UNCHANGED capiVars

-----------------------------------------------------------------------------
(* observables of the result and the property *)
OutDeclared == IF entry = "proto" THEN pOpset ELSE declared
OutNodes == IF entry = "proto" THEN pNodes ELSE nodes
OutFuncs == IF entry = "proto" THEN pFuncs ELSE funcs
OutFnDecl == IF entry = "proto" THEN s ELSE fnDecl            \* functions left in a proto were never touched
OutIn == IF entry = "proto" THEN pIn ELSE gin
OutInit == IF entry = "proto" THEN pInit ELSE ginit
Default(ns) == {k \in DOMAIN ns : ns[k].dom = ""}

SrcCheckerOK == \A k \in DOMAIN orig : orig[k].dom # "" \/ CheckerOK(orig[k], src)
OutCheckerOK == \A k \in DOMAIN OutNodes : IsCall(OutNodes[k]) \/ CheckerOK(OutNodes[k], OutDeclared)
MeaningOf(ns, v) == {Means(ns[k].sem, v) : k \in Default(ns)}
OutRuns == "norun" \notin MeaningOf(OutNodes, OutDeclared) /\ ~clash
OutEquivalent == MeaningOf(OutNodes, OutDeclared) \subseteq {"ok"} /\ ~clash
Unchanged == Forms(OutNodes) = orig
IrVersions == {nodes[k].ver : k \in Default(nodes)}

DeclaredOK == OutDeclared = Tgt \/ (OutDeclared = src /\ Unchanged)
ConsistentOK == /\ (OutFuncs # {} => OutFnDecl = OutDeclared)
                /\ (entry = "ir" => IrVersions \subseteq {0, declared})
ValidOK == SrcCheckerOK => OutCheckerOK
SigOK == OutIn = AllInputs(items, 1)
InitsOK == OutInit = InitNames(items, s)
PropHolds == DeclaredOK /\ ConsistentOK /\ ValidOK /\ OutEquivalent /\ SigOK /\ InitsOK
Failing == {c \in {"declared", "consistent", "valid", "equivalent", "signature", "initializers"} :
              CASE c = "declared" -> ~DeclaredOK [] c = "consistent" -> ~ConsistentOK [] c = "valid" -> ~ValidOK
                [] c = "equivalent" -> ~OutEquivalent [] c = "signature" -> ~SigOK [] c = "initializers" -> ~InitsOK}

\* one JSON line per finished configuration for the conformance harness
CaseRecord == [s |-> s, t |-> t, entry |-> entry, fb |-> fb, items |-> items, path |-> path,
               mid |-> mid, stamp |-> stamp, src |-> src,
               declared |-> OutDeclared, irDeclared |-> declared,
               irVersions |-> IrVersions, nfuncs |-> Cardinality(OutFuncs),
               shape |-> [k \in DOMAIN OutNodes |-> <<(IF OutNodes[k].dom = "" THEN "" ELSE OutNodes[k].dom \o "::") \o OutNodes[k].op,
                                                     OutNodes[k].nin, OutNodes[k].attrs>>],
               srcChecker |-> SrcCheckerOK, checker |-> OutCheckerOK, runs |-> OutRuns,
               equivalent |-> OutEquivalent, sig |-> SigOK, inits |-> InitsOK,
               unchanged |-> Unchanged, prop |-> PropHolds, failing |-> Failing, used |-> used]
\* History: the SAME object is converted a second time (s -> mid -> t).  An ir.Model keeps what the
\* first call left in it (node.version stamps, inlined functions, declared opset); a ModelProto is
\* deserialised afresh.  The property is judged per call: `orig`/`src` are what this call was given.
SecondCall == /\ pc = "done" /\ mid # 0 /\ stage = 1
              /\ stage' = 2 /\ path' = "none" /\ pc' = "inline"
              /\ cur' = 0 /\ fv' = 0 /\ modified' = FALSE /\ clash' = clash
              /\ IF entry = "ir"
                 THEN /\ orig' = Forms(nodes) /\ src' = declared
                      /\ UNCHANGED irVars
                 ELSE /\ nodes' = [k \in DOMAIN pNodes |-> [pNodes[k] EXCEPT !.ver = 0]]
                      /\ funcs' = pFuncs /\ fnDecl' = fnDecl /\ declared' = pOpset
                      /\ gin' = pIn /\ ginit' = pInit
                      /\ orig' = Forms(pNodes) /\ src' = pOpset
              /\ UNCHANGED cfgVars /\ UNCHANGED used /\ UNCHANGED capiVars /\ UNCHANGED protoVars
LastCall == mid = 0 \/ stage = 2
Emit == /\ pc = "done" /\ LastCall /\ pc' = "emitted"
        /\ (Emitting => PrintT(<<"CASE", ToJson(CaseRecord)>>))
        /\ UNCHANGED cfgVars /\ UNCHANGED <<path, orig, stage, src, used>> /\ UNCHANGED irVars
        /\ UNCHANGED loopVars /\ UNCHANGED capiVars /\ UNCHANGED protoVars

Next == \/ AddItem \/ FromProto \/ Inline \/ DecideNoop \/ DecideNative \/ DecideFallback
        \/ SkipNode \/ Raise \/ BeginNode \/ StepNoAdapter \/ StepAdapterNone \/ StepAdapterReplace
        \/ Dev_StepAdapterErrorSwallowed \/ Design_AbortUnchanged \/ SetOpset \/ NameFix
        \/ CApiStrip \/ CApiConvert \/ RecoverInitializers \/ TruncateInputs \/ SwapGraph
        \/ Cleanup \/ ProtoCopyBack \/ SecondCall \/ Emit
Spec == Init /\ [][Next]_vars

Finished == pc \in {"done", "emitted"}
\* THE PROPERTY (checked on the design, Deviations = {})
Prop == Finished => PropHolds
\* implementation model: every failure of the property is due to a named deviation step
Explained == Finished /\ ~PropHolds => used # {}
\* an adapter is registered exactly where a node of the menu stops meaning what it meant
AdaptersWhereNeeded == \A k \in AdapterKeys : ChangesAt(k[1], k[2])
\* printed once so that the harness can compare the table with the real registry
ASSUME PrintT(<<"ADAPTERS", ToJson(AdapterKeys)>>)
\* vacuity witnesses (each must be VIOLATED = reachable)
NoAdapterConversion == ~(Finished /\ modified /\ PropHolds /\ OutDeclared = Tgt /\ entry = "proto")
NoFallbackSuccess == ~(Finished /\ path = "fallback_ok" /\ PropHolds /\ OutInit # {})
NoSecondCallConversion == ~(Finished /\ stage = 2 /\ entry = "ir" /\ modified /\ PropHolds
                            /\ \E k \in DOMAIN nodes : nodes[k].place = "ifbody" /\ nodes[k].op = "Constant")
NoStampedConversion == ~(Finished /\ stamp /\ modified /\ PropHolds
                         /\ \E k \in DOMAIN nodes : nodes[k].place = "ifbody" /\ nodes[k].op = "Constant")
NoRefusal == ~(Finished /\ path \in {"raised", "fallback_failed", "unsupported"} /\ PropHolds)

-----------------------------------------------------------------------------
(* configurations *)
Places == {"top", "ifbody", "func"}
DftAxis == Dft(2, 4, 0, 0, 0)            \* DFT over axis 2 of [2,3,4,1]
DftNoAxis4 == Dft(99, 4, 0, 0, 0)
GnGroup == Gn(6, 2, 0, 3, 1, "known")    \* 6 channels, 2 groups
AnyPlaceItems == {<<"relu", D>>, <<"cast", D>>, <<"custom", D>>, <<"dft", DftAxis>>, <<"dft", DftNoAxis4>>,
                  <<"gs", Gs("bilinear", "", -1)>>, <<"gs", Gs("bicubic", "", -1)>>, <<"gn", GnGroup>>}
TopItems == {<<"dft", Dft(99, 3, 0, 0, 0)>>, <<"gs", Gs("nearest", "", -1)>>, <<"gn", Gn(6, 6, 0, 3, 1, "known")>>,
             <<"gn", Gn(6, 2, 1, 3, 1, "known")>>, <<"gn", Gn(6, 2, 0, 3, 1, "nox")>>,
             <<"gn", Gn(6, 2, 0, 3, 1, "symc")>>, <<"gn", Gn(6, 2, 0, 3, 1, "nosc")>>}
\* initializer kinds: {<= 1000, > 1000 elements} x {plain, also a graph input} x {main graph, used in a subgraph}
AddItems == {I("add", p, AddP(b, o)) : p \in {"top", "ifbody"}, b \in BOOLEAN, o \in BOOLEAN}
LoopItems == {I(k[1], "loopbody", k[2]) : k \in {<<"relu", D>>, <<"dft", DftAxis>>, <<"dft", DftNoAxis4>>,
                                                 <<"gs", Gs("bicubic", "", -1)>>, <<"gn", GnGroup>>}}
MenuAll == {I(k[1], p, k[2]) : k \in AnyPlaceItems, p \in Places} \cup {I(k[1], "top", k[2]) : k \in TopItems} \cup AddItems
           \cup LoopItems

\* parameter sweeps of the three adapter ops: every legal axis (the last dimension is the complex
\* one), flags, dft_length; every GridSample mode x padding x align_corners and "all defaults";
\* GroupNormalization channel/group/epsilon/rank/batch combinations
DftPars == {Dft(a, 4, 0, 0, 0) : a \in {0, 1, 2, -2, -3, -4}} \cup {Dft(a, 3, 0, 0, 0) : a \in {0, 1, -2, -3}}
           \cup {Dft(1, 3, 1, 0, 0), Dft(0, 4, 1, 0, 0), Dft(2, 4, 0, 1, 0), Dft(0, 3, 0, 1, 0),
                 Dft(1, 3, 0, 0, 5), Dft(-2, 4, 1, 0, 3), Dft(0, 4, 0, 0, 3)}
GsPars == {Gs(m, pd, a) : m \in {"bilinear", "bicubic", "nearest"}, pd \in {"zeros", "border", "reflection"}, a \in {0, 1}}
          \cup {Gs("", "", -1), Gs("", "border", 1)}
GnPars == {Gn(6, 3, 0, 3, 1, "known"), Gn(4, 2, 0, 3, 1, "known"), Gn(6, 1, 0, 3, 1, "known"), Gn(8, 4, 1, 3, 2, "known"),
           Gn(6, 2, 0, 4, 2, "known"), Gn(6, 3, 1, 4, 1, "known"), Gn(1, 1, 0, 3, 1, "known"), Gn(4, 4, 1, 4, 2, "known"),
           Gn(4, 2, 0, 4, 1, "nox"), Gn(6, 3, 0, 3, 2, "nosc")}
VarAll == ({I("dft", "top", q) : q \in DftPars} \cup {I("gs", "top", q) : q \in GsPars} \cup {I("gn", "top", q) : q \in GnPars})
VarQuick == VarAll \ MenuAll
VarThorough == (VarAll \cup {I("dft", p, q) : p \in {"ifbody", "func"}, q \in DftPars}
                       \cup {I("gs", p, q) : p \in {"ifbody", "func"}, q \in GsPars}
                       \cup {I("gn", p, q) : p \in {"ifbody", "func"}, q \in {g \in GnPars : g.sh = "known"}}) \ MenuAll
VarVersionsQuick == {18, 19, 20, 21, 23}
\* two-call histories / stamped sources: adapter ops at top level and inside If and Loop bodies
HistAll == {I(k[1], p, k[2]) : k \in {<<"relu", D>>, <<"dft", DftAxis>>, <<"gs", Gs("bilinear", "", -1)>>, <<"gn", GnGroup>>},
                               p \in {"top", "ifbody", "loopbody"}}
HistVersionsQuick == {18, 19, 20, 21, 22}
HistVersionsThorough == {18, 19, 20, 21, 22, 25}
NoItems == {}
NoVersions == {}

MultiQuick == {I("dft", "top", DftAxis), I("dft", "ifbody", DftAxis), I("gn", "top", Gn(6, 2, 0, 3, 1, "nox")),
               I("add", "top", AddP(TRUE, FALSE))}
MultiThorough == {I("dft", "top", DftAxis), I("dft", "ifbody", DftAxis), I("gn", "func", GnGroup),
                  I("gn", "top", Gn(6, 2, 0, 3, 1, "nox")), I("gs", "top", Gs("bilinear", "", -1)),
                  I("add", "top", AddP(TRUE, FALSE)), I("add", "ifbody", AddP(TRUE, TRUE)), I("custom", "top", D),
                  I("dft", "func", DftNoAxis4), I("relu", "ifbody", D)}
TripleQuick == {}
TripleThorough == {I("dft", "top", DftAxis), I("gn", "func", GnGroup), I("gn", "top", Gn(6, 2, 0, 3, 1, "nox")),
                   I("add", "top", AddP(TRUE, TRUE)), I("gs", "ifbody", Gs("bilinear", "", -1))}
MenuWitness == {I("dft", "top", DftAxis), I("add", "top", AddP(TRUE, TRUE)), I("relu", "func", D)}
WitnessVersions == {18, 20, 23}
AllVersions == 18..25
NoDevs == {}
RealDevs == AllDevs
=============================================================================
