SPECIFICATION Spec
INVARIANT Agree
CHECK_DEADLOCK FALSE
