SPECIFICATION Spec
CONSTANTS
  Deviations <- AllDevs
  MaxCalls = 7
  MaxDepth = 2
  Ops <- AllOps
  Kinds <- AllKinds
  LitMenu <- AllLits
  InMenu = {1, 2, 3, 4}
  Trips = {0, 1, 2, 3}
  FnMenu = {1, 2, 3, 4}
  CarryMenu = {"i0", "i1", "f2", "bT"}
  LitOnly = FALSE
  Sim = TRUE
INVARIANT DesignOK
INVARIANT DeviationsExplain
INVARIANT ScopeBalanced
INVARIANT Report
CHECK_DEADLOCK FALSE
