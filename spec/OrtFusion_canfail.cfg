SPECIFICATION Spec
CONSTANTS
  Deviations <- AllDevs
  Fams <- FamsGelu
  Modes <- ModesChain
  Big = FALSE
INVARIANT NeverUnsound
CHECK_DEADLOCK FALSE
