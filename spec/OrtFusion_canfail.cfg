SPECIFICATION Spec
CONSTANTS
  Deviations <- AllDevs
  Fams <- FamsAll
  Modes <- ModesAll
  Big = FALSE
INVARIANT NeverUnsound
CHECK_DEADLOCK FALSE
