----------------------------- MODULE BuilderTrace -----------------------------
(* Trace validation (direction B) of GraphBuilder / nn.Parameter against BuilderApply.tla.        *)
(* TRACE_FILE: JSON array of [id, root, graph, inputs, input_names, inits, nodes, events, finished]. *)
EXTENDS BuilderApply, Json, IOUtils

Traces == JsonDeserialize(IOEnv.TRACE_FILE)
VARIABLES tid, l
tvars == <<bvars, tid, l>>
T == Traces[tid]
Tr == T.events
E == Tr[l]

TInit == /\ tid \in 1..Len(Traces) /\ l = 1
         /\ BInit(Traces[tid].root, Traces[tid].graph, Traces[tid].inputs, Traces[tid].input_names, Traces[tid].inits, Traces[tid].nodes)

Pairs(st) == [i \in 1..Len(st) |-> <<st[i][1], st[i][2]>>]
Clauses ==
  CASE E.ev = "Child" -> ChildClauses(E.b, E.parent, E.graph, E.inputs)
    [] E.ev = "Inherit" -> InheritClauses(E.b, Pairs(E.stack))
    [] E.ev = "Push" -> PushClauses(E.b)
    [] E.ev = "Pop" -> PopClauses(E.b)
    [] E.ev = "Input" -> InputClauses(E.b, E.graph, E.value, E.name)
    [] E.ev = "Init" -> InitClauses(E.b, E.requested, E.name, E.qualify, E.value, E.existed, E.graph)
    [] E.ev = "Param" -> ParamClauses(E.b, E.requested, E.name, E.value, E.existed, E.graph)
    [] E.ev = "Const" -> ConstClauses(E.b, E.key, <<E.literal[1], E.literal[2], E.literal[3]>>, E.hit, E.value, E.name, E.size)
    [] E.ev = "Node" -> NodeClauses(E.b, E.graph, E.id, E.name, E.ins, E.outs, E.out_names, E.annotated, E.name_scopes, E.class_hierarchy,
                                    E.namespace, E.count, E.subs)
    [] E.ev = "EndGraph" -> EndGraphClauses(E.b, E.graph, E.outputs, Pairs(E.stack))
    [] E.ev = "Output" -> OutputClauses(E.b, E.graph, E.value)
    [] E.ev = "InlineBegin" -> InlineBeginClauses(E.b)
    [] E.ev = "InlineEnd" -> InlineEndClauses(E.b, E.outputs, E.nodes)
    [] OTHER -> <<<<"unknown_event", FALSE>>>>
Update ==
  CASE E.ev = "Child" -> DoChild(E.b, E.parent, E.graph, E.inputs, E.input_names, E.nodes)
    [] E.ev = "Inherit" -> DoInherit(E.b, Pairs(E.stack))
    [] E.ev = "Push" -> DoPush(E.b, E.name, E.cls)
    [] E.ev = "Pop" -> DoPop(E.b)
    [] E.ev = "Input" -> DoInput(E.b, E.graph, E.value, E.name, E.default)
    [] E.ev = "Init" -> DoInit(E.name, E.value)
    [] E.ev = "Param" -> DoInit(E.name, E.value)
    [] E.ev = "Const" -> DoConst(E.key, <<E.literal[1], E.literal[2], E.literal[3]>>, E.value)
    [] E.ev = "Node" -> DoNode(E.graph, E.id, E.name, E.outs, E.out_names)
    [] E.ev = "EndGraph" -> DoEndGraph(E.graph)
    [] E.ev = "Output" -> Keep
    [] E.ev = "InlineBegin" -> DoInlineBegin(E.b)
    [] E.ev = "InlineEnd" -> DoInlineEnd(E.b)

\* clauses that listed known findings of C18 explain (subgraph_name_reuse, param_subgraph_scope, the name collisions of
\* sequential_child_direct / named_child_keeps_name): reported as NOTE, validation goes on; the harness decides per trace
\* whether the finding is the one the implementation model predicts for that case
Soft == {"node_name_unique_across_graphs", "node_output_names_unique_across_graphs", "param_name_is_the_dotted_path_of_the_calling_scope",
         "param_name_registered_once", "param_appears_once"}
RECURSIVE FirstHard(_)
FirstHard(cl) == IF cl = <<>> THEN "" ELSE IF ~Head(cl)[2] /\ Head(cl)[1] \notin Soft THEN Head(cl)[1] ELSE FirstHard(Tail(cl))
SoftFailed(cl) == {cl[i][1] : i \in {i \in 1..Len(cl) : ~cl[i][2] /\ cl[i][1] \in Soft}}
Note(cl) == \A s \in SoftFailed(cl) : PrintT(<<"NOTE", T.id, l, s>>)

Step == /\ rerr = <<>> /\ l <= Len(Tr)
        /\ LET cl == Clauses bad == FirstHard(cl) IN
             IF bad = "" THEN Note(cl) /\ Update /\ rerr' = <<>> /\ l' = l + 1
             ELSE rerr' = <<l, bad>> /\ l' = l /\ Keep
        /\ UNCHANGED tid
Finish == /\ rerr = <<>> /\ l = Len(Tr) + 1 /\ T.finished
          /\ LET cl == BEndClauses(T.root) bad == FirstHard(cl) IN
               rerr' = IF bad = "" THEN <<0, "accepted">> ELSE <<l, bad>>
          /\ l' = l + 1 /\ Keep /\ UNCHANGED tid
\* a builder that was never closed (used directly, or the trace function raised): the recorded prefix was consistent
Open == /\ rerr = <<>> /\ l = Len(Tr) + 1 /\ ~T.finished
        /\ rerr' = <<0, "open_prefix_consistent">> /\ l' = l + 1 /\ Keep /\ UNCHANGED tid
TNext == Step \/ Finish \/ Open
TSpec == TInit /\ [][TNext]_tvars
Verdict == rerr # <<>> => PrintT(<<"VERDICT", T.id, rerr[1], rerr[2], stats[1], stats[2], stats[3], stats[4]>>)
=============================================================================
