SPECIFICATION Spec
CONSTANTS
  Deviations <- RealDevs
  MaxExtra = 2
  AttrModes <- ModesQuick
  VarNone = FALSE
INVARIANT SomeInherited
CHECK_DEADLOCK FALSE
