SPECIFICATION Spec
CONSTANTS
  Deviations <- RealDevs
  MaxNodes = 3
  Worlds <- VecWorld
  Rich = FALSE
  NumIter = 2
  EarlyStop = TRUE
  Sim = FALSE
  Fine = FALSE
  Mutant = "none"
INVARIANT PropertyHolds
INVARIANT Emit
CHECK_DEADLOCK FALSE
