SPECIFICATION Spec
CONSTANTS
  Deviations <- NoDevs
  Big = FALSE
INVARIANT DesignOK
INVARIANT WellFormed
CHECK_DEADLOCK FALSE
