SPECIFICATION Spec
CONSTANTS
  Deviations <- NoDevs
  Ranks <- R23
  Big = FALSE
INVARIANT DesignOK
INVARIANT WellFormed
CHECK_DEADLOCK FALSE
